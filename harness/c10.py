"""C10 — the opening handshake request is well-formed and reflects URL and options."""
import base64 as _b64

import bvsym as sx
from bvsym import core
from .envpatch import EnvPatch
from .common import reset_cookie_jar
from .common import FakeOs, FakeSock, Obligation, cover, new_ws, quiet_logging

PROPERTY = "C10"
EXPLANATION = ("_handshake._get_handshake_headers / _pack_hostname / _create_sec_websocket_key / handshake executed with SYMBOLIC "
               "host, resource and option strings (ASCII SymStr), a symbolic choice of port, scheme and option presence, and 16 "
               "symbolic random bytes for the key; the produced header list / bytes written are compared with the exact "
               "expected request assembled independently from the same values.")
ASSUMPTIONS = ["option strings contain no CR or LF (a caller passes header VALUES)", "strings are ASCII (SymStr bound)",
               "base64 of symbolic bytes is computed by a bit-regrouping model of RFC 4648 (validated against the real codec by "
               "selftest/translator_validation.py); natively (replay) the real codec runs",
               "the process-wide cookie jar is empty (cookies are C20)"]

B64 = "ABCDEFGHIJKLMNOPQRSTUVWXYZabcdefghijklmnopqrstuvwxyz0123456789+/"


def b64_model(data):
    """base64.encodebytes for bytes / SymBytes: returns bytes-like incl. trailing newline"""
    if isinstance(data, (bytes, bytearray)):
        return _b64.encodebytes(bytes(data))
    import z3
    tbl = core.SymTable([ord(c) for c in B64])
    bs = [core._bv8(x) for x in data.b]
    out = []
    for i in range(0, len(bs), 3):
        chunk = bs[i:i + 3]
        pad = 3 - len(chunk)
        chunk = chunk + [z3.BitVecVal(0, 8)] * pad
        v = z3.Concat(*chunk)
        idx = [z3.Extract(23 - 6 * j, 18 - 6 * j, v) for j in range(4)]
        chars = [tbl[core.SymInt(z3.simplify(t), 6, False)] for t in idx]
        if pad:
            chars = chars[: 4 - pad] + [61] * pad
        out += chars
    out.append(10)
    return sx.mk_bytes(out)


def _no_crlf(s):
    if isinstance(s, str):
        sx.assume("\r" not in s and "\n" not in s)
        return
    for c in s.encode():
        sx.assume(sx.And(c != 13, c != 10))


def _opt_str(name, n, allow_none=True, vary=True):
    """symbolic option: 0 = absent, 1 = None, 2.. = symbolic string of length 1..n"""
    if not vary:
        return "ABSENT"
    k = sx.choice(name + "_kind", 2 + n if allow_none else 1 + n)
    if k == 0:
        return "ABSENT"
    if allow_none and k == 1:
        return None
    ln = k - 1 if allow_none else k
    s = sx.sym_str(name, ln)
    _no_crlf(s)
    return s


def q_hdr(hostlen, reslen, header_kind, group="all"):
    """group: which options vary in this scenario — 'addr' (host override, origin, suppress_origin, scheme, port), 'extra'
    (cookie, connection, subprotocols, custom headers) or 'pairs' (every option absent / 1 symbolic char, full product)"""
    quiet_logging()
    import websocket._handshake as HS
    reset_cookie_jar()
    host = sx.sym_str("host", hostlen)
    _no_crlf(host)
    resource = "/" + sx.sym_str("res", reslen) if reslen else "/"
    if reslen:
        _no_crlf(resource)
    addr, extra = group in ("addr", "all"), group in ("extra", "all")
    if group == "pairs":
        port = (80, 8080)[sx.choice("port", 2)]
        scheme = ("ws", "wss")[sx.choice("scheme", 2)]
        options = {}
        o_host, o_origin, o_cookie, o_conn = [(sx.sym_str(nm, 1) if sx.choice(nm + "_kind", 2) else "ABSENT") for nm in ("ohost", "origin", "cookie", "conn")]
        for v in (o_host, o_origin, o_cookie, o_conn):
            if not (isinstance(v, str) and v == "ABSENT"):
                _no_crlf(v)
    else:
        port = (80, 443, 8080, 1, 65535)[sx.choice("port", 5)] if addr else 8080
        scheme = ("ws", "wss")[sx.choice("scheme", 2)] if addr else "ws"
        options = {}
        o_host = _opt_str("ohost", 2, vary=addr)
        o_origin = _opt_str("origin", 2, vary=addr)
        o_cookie = _opt_str("cookie", 2, vary=extra)
        o_conn = _opt_str("conn", 2, vary=extra)
    for k, v in (("host", o_host), ("origin", o_origin), ("cookie", o_cookie), ("connection", o_conn)):
        if not (isinstance(v, str) and v == "ABSENT"):
            options[k] = v
    suppress = sx.choice("suppress", 2) if (addr or group == "pairs") else 0
    if suppress:
        options["suppress_origin"] = True
    nsub = sx.choice("nsub", 3) if extra else (sx.choice("nsub", 2) if group == "pairs" else 0)
    subs = []
    for i in range(nsub):
        sp = sx.sym_str("sub%d" % i, 2)
        _no_crlf(sp)
        subs.append(sp)
    if nsub or (extra and sx.choice("subs_empty", 2)):
        options["subprotocols"] = subs
    custom_expected = []
    if header_kind == "list":
        nh = sx.choice("nh", 3)
        hl = []
        for i in range(nh):
            line = "X-%d: " % i + sx.sym_str("hv%d" % i, 2)
            _no_crlf(line)
            hl.append(line)
        options["header"] = hl
        custom_expected = list(hl)
    elif header_kind == "dict":
        hd = {}
        for i in range(2):
            kind = sx.choice("hd%d" % i, 4)  # absent / None / value / empty value
            if kind == 1:
                hd["X-%d" % i] = None
            elif kind == 3:
                hd["X-%d" % i] = ""
                custom_expected.append("X-%d: " % i)
            elif kind == 2:
                v = sx.sym_str("hv%d" % i, 2)
                _no_crlf(v)
                hd["X-%d" % i] = v
                custom_expected.append("X-%d: " % i + v)
        options["header"] = hd
    url = scheme + "://placeholder/"
    draws = []

    def urandom(n):
        draws.append(n)
        return bytes(range(16))[:n]
    ep = EnvPatch()
    ep.urandom(urandom)
    try:
        headers, key = sx.unit(HS, "_get_handshake_headers")(resource, url, host, port, options)
    except (sx.Control, sx.ConcreteFailure, sx.ReplayMismatch):
        raise
    except Exception as e:
        sx.require(False, "_get_handshake_headers raised %s" % type(e).__name__, header_kind=header_kind)
        return
    finally:
        ep.restore()
    # ---- expected request, assembled independently
    packed = ("[" + host + "]") if (":" in host) else host
    hostport = packed if port in (80, 443) else packed + ":" + str(port)
    exp = ["GET " + resource + " HTTP/1.1", "Upgrade: websocket"]
    exp.append("Host: " + (options["host"] if options.get("host") else hostport))
    if not suppress:
        if options.get("origin") is not None and "origin" in options:
            exp.append("Origin: " + options["origin"])
        else:
            exp.append("Origin: " + ("https://" if scheme == "wss" else "http://") + hostport)
    exp_key = _b64.encodebytes(bytes(range(16))).decode().strip()
    exp.append("Sec-WebSocket-Key: " + exp_key)
    exp.append("Sec-WebSocket-Version: 13")
    exp.append(options["connection"] if options.get("connection") else "Connection: Upgrade")
    if subs:
        sl = subs[0]
        for s in subs[1:]:
            sl = sl + "," + s
        exp.append("Sec-WebSocket-Protocol: " + sl)
    exp += custom_expected
    if options.get("cookie"):
        exp.append("Cookie: " + options["cookie"])
    exp += ["", ""]
    sx.require(len(headers) == len(exp), "request has exactly the expected lines (none missing, none extra)", got=len(headers), exp=len(exp),
               header_kind=header_kind)
    for i, (g, e) in enumerate(zip(headers, exp)):
        sx.require(g == e, "request line %d is exactly as the URL and options specify" % i, i=i, exp=str(e)[:40], header_kind=header_kind)
    sx.require(key == exp_key, "returned key is the one sent")
    sx.require(draws == [16], "one draw of 16 random bytes per request")
    cover("hdr")
    if ":" in host:
        cover("ipv6")


def q_key():
    """the key header is the base64 of exactly the 16 bytes drawn; a second request draws again"""
    quiet_logging()
    import websocket._handshake as HS
    reset_cookie_jar()
    r1 = sx.sym_bytes("r1_", 16)
    r2 = sx.sym_bytes("r2_", 16)
    pool = [r1, r2]
    draws = []

    def urandom(n):
        draws.append(n)
        return pool.pop(0)
    ep = EnvPatch()
    ep.urandom(urandom)
    if sx.mode() != "concrete":
        ep.handshake_crypto(b64=lambda d: b64_model(d)[:-1])
    try:
        h1, k1 = sx.unit(HS, "_get_handshake_headers")("/", "ws://h/", "h", 80, {})
        h2, k2 = sx.unit(HS, "_get_handshake_headers")("/", "ws://h/", "h", 80, {})
    finally:
        ep.restore()
    sx.require(draws == [16, 16], "each request draws 16 fresh random bytes exactly once")
    for h, k, r in ((h1, k1, r1), (h2, k2, r2)):
        line = [x for x in h if isinstance(x, (str, sx.SymStr)) and x.startswith("Sec-WebSocket-Key: ")]
        sx.require(len(line) == 1, "exactly one key header")
        val = line[0][len("Sec-WebSocket-Key: "):]
        sx.require(len(val) == 24, "key is 24 base64 characters (16 bytes)")
        # decode with the reference: regroup 6-bit values and compare with the drawn bytes
        sx.require(_b64_decodes_to(val, r), "key header is the base64 encoding of exactly the bytes drawn")
        sx.require(val == k, "returned key equals the header value")
    cover("key")


def _b64_decodes_to(val, raw):
    """val: 24-char (Sym)Str; raw: 16 (Sym)bytes — independent decoder: char -> 6-bit value by range arithmetic"""
    vb = val.encode()
    sixes = []
    for i in range(22):
        c = vb[i]
        v = sx.If(sx.And(c >= 65, c <= 90), c - 65,
                  sx.If(sx.And(c >= 97, c <= 122), c - 71,
                        sx.If(sx.And(c >= 48, c <= 57), c + 4, sx.If(c == 43, 62, sx.If(c == 47, 63, 255)))))
        sixes.append(v)
    conds = [vb[22] == 61, vb[23] == 61]
    for s in sixes:
        conds.append(s != 255)
    # 16 bytes = 5 full groups (15 bytes) + 1 byte in the last group (2 chars + '==')
    def six(i):
        return sixes[i]
    for g in range(5):
        a, b, c, d = six(4 * g), six(4 * g + 1), six(4 * g + 2), six(4 * g + 3)
        conds.append(raw[3 * g] == ((a << 2) | (b >> 4)))
        conds.append(raw[3 * g + 1] == (((b & 15) << 4) | (c >> 2)))
        conds.append(raw[3 * g + 2] == (((c & 3) << 6) | d))
    a, b = six(20), six(21)
    conds.append(raw[15] == ((a << 2) | (b >> 4)))
    conds.append((b & 15) == 0)
    return sx.And(conds)


def q_wire(scheme, port, with_opts, jar_only=None):
    """handshake(): the request is written with a single send before anything is read, CRLF-joined, ended by an empty line"""
    quiet_logging()
    import websocket._handshake as HS
    from websocket._exceptions import WebSocketException
    reset_cookie_jar()
    host = sx.sym_str("host", 3)
    _no_crlf(host)
    sx.assume(sx.Not(sx.contains(host, ":")))  # the bracketed IPv6 form is Q-hdr's subject
    res = "/" + sx.sym_str("res", 2)
    _no_crlf(res)
    opts = {}
    if with_opts:
        import http.cookies
        c = sx.sym_str("cookie", 2)
        _no_crlf(c)
        opts = {"cookie": c, "subprotocols": ["a", "b"], "header": ["X-A: 1"]}
        sx.unit(sx.unit(HS, "CookieJar"), "jar")["." + host.lower()] = http.cookies.SimpleCookie("s=1")  # a cookie the server set earlier for this host
    if jar_only is not None:
        # the server set a cookie for this host on an earlier connection; the caller passes no cookie (absent / None / "")
        import http.cookies
        sx.unit(sx.unit(HS, "CookieJar"), "jar")["." + host.lower()] = http.cookies.SimpleCookie("s=1")
        if jar_only == "none":
            opts["cookie"] = None
        elif jar_only == "empty":
            opts["cookie"] = ""
    sock = FakeSock(["eof"])
    try:
        HS.handshake(sock, "%s://x/" % scheme, host, port, res, **opts)
    except WebSocketException:
        pass
    sends = [e for e in sock.log if e[0] == "send"]
    first_recv = [i for i, e in enumerate(sock.log) if e[0] == "recv"]
    sx.require(len(sends) == 1, "the request is written with exactly one transport write", got=len(sends))
    sx.require(first_recv and sock.log.index(sends[0]) < first_recv[0], "request written before the first read")
    wire = sock.wire()
    sx.require(wire[len(wire) - 4:] == b"\r\n\r\n", "request ends with an empty line")
    hostport = host if port in (80, 443) else host + ":" + str(port)
    head = ("GET " + res + " HTTP/1.1\r\nUpgrade: websocket\r\nHost: " + hostport + "\r\nOrigin: " + ("https" if scheme == "wss" else "http") +
            "://" + hostport + "\r\nSec-WebSocket-Key: ")
    hb = head.encode() if isinstance(head, str) else head.encode()
    sx.require(wire[: len(hb)] == hb, "request line, Upgrade, Host and Origin on the wire")
    tail = "\r\nSec-WebSocket-Version: 13\r\nConnection: Upgrade\r\n"
    if with_opts:
        tail = tail + "Sec-WebSocket-Protocol: a,b\r\nX-A: 1\r\nCookie: s=1; " + opts["cookie"] + "\r\n"
    if jar_only is not None and not with_opts:
        tail = tail + "Cookie: s=1\r\n"
    tail = tail + "\r\n"
    tb = tail.encode()
    sx.require(wire[len(hb) + 24:] == tb, "version, connection, subprotocols, custom headers and cookie (jar cookies first, then the caller's) on the wire, in order")
    reset_cookie_jar()
    cover("wire")


def q_reuse(header_kind):
    """two requests built from the SAME option objects (header list / dict, subprotocol list): the second is identical to the
    first except for a fresh key, and the caller's objects are not modified"""
    quiet_logging()
    import copy
    import http.cookies
    import websocket._handshake as HS
    reset_cookie_jar()
    host = sx.sym_str("host", 2)
    _no_crlf(host)
    sx.assume(sx.Not(sx.contains(host, ":")))
    cookie = sx.sym_str("cookie", 2)
    _no_crlf(cookie)
    hv = sx.sym_str("hv", 2)
    _no_crlf(hv)
    if header_kind == "list":
        header = ["X-A: " + hv, "X-B: 2"]
    elif header_kind == "dict":
        header = {"X-A": hv, "X-B": None}
    else:
        header = None
    subs = ["a", "b"]
    options = {"header": header, "cookie": cookie, "subprotocols": subs, "origin": "http://o"}
    if header is None:
        del options["header"]
    sx.unit(sx.unit(HS, "CookieJar"), "jar")["." + host.lower()] = http.cookies.SimpleCookie("s=1")
    snap_header = copy.copy(header)
    snap_subs = list(subs)
    pool = [bytes(range(16)), bytes(range(16, 32)), bytes(range(32, 48))]
    draws = []

    def urandom(n):
        draws.append(n)
        return pool.pop(0)
    ep = EnvPatch()
    ep.urandom(urandom)
    try:
        h1, k1 = sx.unit(HS, "_get_handshake_headers")("/r", "ws://x/", host, 8080, options)
        h2, k2 = sx.unit(HS, "_get_handshake_headers")("/r", "ws://x/", host, 8080, options)
        h3, k3 = sx.unit(HS, "_get_handshake_headers")("/r", "ws://x/", host, 8080, options)
    finally:
        ep.restore()
        reset_cookie_jar()
    sx.require(draws == [16, 16, 16], "every request draws its own 16 random bytes")
    sx.require(k1 != k2 and k2 != k3, "successive requests carry fresh keys")

    def strip(h):
        return [l for l in h if not (isinstance(l, str) and l.startswith("Sec-WebSocket-Key: "))]
    for later, nm in ((h2, "second"), (h3, "third")):
        a, b = strip(h1), strip(later)
        sx.require(len(a) == len(b), "the %s request built from the same options has the same lines as the first (nothing accumulates)" % nm,
                   first=len(a), later=len(b), header_kind=header_kind)
        for x, y in zip(a, b):
            sx.require(x == y, "the %s request equals the first apart from the key" % nm, header_kind=header_kind)
    ck = [l for l in h3 if isinstance(l, (str, sx.SymStr)) and l.startswith("Cookie: ")]
    sx.require(len(ck) == 1, "exactly one Cookie header", got=len(ck), header_kind=header_kind)
    if header is not None:
        sx.require(len(header) == len(snap_header), "the caller's header option is not modified", header_kind=header_kind)
    sx.require(subs == snap_subs, "the caller's subprotocol list is not modified")
    cover("reuse")


URL_HOSTS = (("h.example", "h.example"), ("10.1.2.3", "10.1.2.3"), ("[2001:db8::1]", "[2001:db8::1]"), ("H.Example", "h.example"))
URL_PORTS = ("", ":80", ":443", ":8080")
URL_PATHS = ("", "/", "/a/b")
URL_QUERIES = ("", "?q=1", "?a=1&b=2")


def q_app(header_kind, losses):
    """WebSocketApp.run_forever with a reconnect interval: every connection attempt of the run sends its own complete request.  A
    callable `header` option is evaluated for each connection (a token it returns is never re-sent stale); static options reappear
    unchanged; every request has a fresh key."""
    quiet_logging()
    from .appcommon import AppRun, close_frame
    calls = []

    def header_fn():
        calls.append(len(calls))
        return ["X-Token: t%d" % (len(calls) - 1), "X-Static: s"]
    if header_kind == "callable":
        header = header_fn
    elif header_kind == "list":
        header = ["X-Token: t", "X-Static: s"]
    else:
        header = {"X-Token": "t", "X-Static": "s"}
    from simnet import accept_for

    def respond(server, head, key):
        return ("HTTP/1.1 101 Switching Protocols\r\nUpgrade: websocket\r\nConnection: Upgrade\r\nSec-WebSocket-Protocol: chat\r\n"
                "Sec-WebSocket-Accept: %s\r\n\r\n" % accept_for(key)).encode()
    specs = [{"script": [(1, "EOF")], "respond": respond} for _ in range(losses)] + [{"script": [(1, close_frame(1000))], "respond": respond}]
    r = AppRun(specs, step_budget=3000, app_kwargs=dict(header=header, cookie="c=1", subprotocols=["chat"]))
    r.run(reconnect=2, origin="http://o.example")
    reqs = [h for (_, _, h) in r.net.requests]
    sx.require(len(reqs) == losses + 1, "one request per connection attempt", got=len(reqs), losses=losses)
    keys, last_tok = [], -1
    for i, head in enumerate(reqs):
        lines = head.split("\r\n")
        sx.require(lines[0] == "GET /x HTTP/1.1", "request line of every (re)connection", i=i, got=lines[0])
        low = [l.lower() for l in lines[1:]]
        for need in ("upgrade: websocket", "connection: upgrade", "host: h.example", "origin: http://o.example", "sec-websocket-version: 13",
                     "sec-websocket-protocol: chat", "cookie: c=1", "x-static: s"):
            sx.require(low.count(need) == 1, "every (re)connection request carries each configured header exactly once", i=i, header=need,
                       got=low.count(need), header_kind=header_kind)
        toks = [l.split(":", 1)[1].strip() for l in lines[1:] if l.lower().startswith("x-token:")]
        sx.require(len(toks) == 1, "custom header present once on every (re)connection", i=i, got=len(toks), header_kind=header_kind)
        if header_kind == "callable" and len(toks) == 1:
            n = int(toks[0][1:])
            sx.require(n > last_tok, "a callable header option is evaluated anew for every connection (no value of an earlier attempt is re-sent)",
                       i=i, got=toks[0], previous=last_tok)
            last_tok = n
        elif len(toks) == 1:
            sx.require(toks[0] == "t", "static custom header unchanged on every (re)connection", i=i, got=toks[0])
        ks = [l.split(":", 1)[1].strip() for l in lines[1:] if l.lower().startswith("sec-websocket-key:")]
        sx.require(len(ks) == 1 and ks[0] not in keys, "a fresh key on every (re)connection", i=i)
        keys += ks
    cover("app")


def q_url(scheme):
    """URL -> request, end to end through create_connection on the fake network (strings concrete per path)"""
    quiet_logging()
    import simnet
    import websocket
    import websocket._handshake as HS
    reset_cookie_jar()
    host, host_l = URL_HOSTS[sx.choice("host", len(URL_HOSTS))]
    port = URL_PORTS[sx.choice("port", len(URL_PORTS))]
    path = URL_PATHS[sx.choice("path", len(URL_PATHS))]
    query = URL_QUERIES[sx.choice("query", len(URL_QUERIES))]
    url = scheme + "://" + host + port + path + query
    k = simnet.Kernel(step_budget=3000)
    net = simnet.Net(k, [{}], tls=scheme == "wss")
    simnet.install(k, net, tls=scheme == "wss")
    try:
        try:
            ws = websocket.create_connection(url, timeout=5)
            ws.shutdown()
        except (sx.Control, sx.ConcreteFailure, sx.ReplayMismatch):
            raise
        except Exception as e:
            sx.require(False, "valid URL could not be connected: %s" % type(e).__name__, url=url)
            return
    finally:
        k.shutdown()
        simnet.uninstall()
    sx.require(len(net.requests) == 1, "exactly one request is sent", url=url)
    lines = net.requests[0][2].split("\r\n")
    target = (path or "/") + query
    sx.require(lines[0] == "GET " + target + " HTTP/1.1", "request target is the URL's path ('/' if empty) and query", url=url, got=lines[0])
    pnum = int(port[1:]) if port else (443 if scheme == "wss" else 80)
    exp_host = host_l if pnum in (80, 443) else host_l + ":" + str(pnum)
    sx.require("Host: " + exp_host in lines, "Host names the URL's host (bracketed if IPv6) with the port unless it is 80 or 443", url=url,
               got=str([l for l in lines if l.startswith("Host")]))
    sx.require("Origin: " + ("https" if scheme == "wss" else "http") + "://" + exp_host in lines, "default Origin derived from scheme, host and port", url=url)
    for must in ("Upgrade: websocket", "Connection: Upgrade", "Sec-WebSocket-Version: 13"):
        sx.require(must in lines, "mandatory upgrade headers present", url=url, missing=must)
    sx.require(len([l for l in lines if l.startswith("Sec-WebSocket-Key: ")]) == 1, "one key header", url=url)
    cover("url")


def q_redirect(scheme2, port2, path2):
    """the request sent after a redirect reflects the LOCATION url (target, Host, Origin), not the original one"""
    quiet_logging()
    import simnet
    import websocket
    import websocket._handshake as HS
    reset_cookie_jar()
    loc = "%s://b.example%s%s" % (scheme2, port2, path2)
    n = [0]

    def respond(server, head, key):
        n[0] += 1
        if n[0] == 1:
            return ("HTTP/1.1 302 Found\r\nLocation: %s\r\n\r\n" % loc).encode()
        return ("HTTP/1.1 101 Switching Protocols\r\nUpgrade: websocket\r\nConnection: Upgrade\r\nSec-WebSocket-Accept: %s\r\n\r\n"
                % simnet.accept_for(key)).encode()

    k = simnet.Kernel(step_budget=3000)
    net = simnet.Net(k, [{"respond": respond}], tls=True)
    simnet.install(k, net, tls=True)
    try:
        try:
            ws = websocket.create_connection("ws://a.example:8080/old?x=1", timeout=5)
            ws.shutdown()
        except (sx.Control, sx.ConcreteFailure, sx.ReplayMismatch):
            raise
        except Exception as e:
            sx.require(False, "redirected connect failed: %s" % type(e).__name__, loc=loc)
            return
    finally:
        k.shutdown()
        simnet.uninstall()
    sx.require(len(net.requests) == 2, "one request per connection", got=len(net.requests))
    l1 = net.requests[0][2].split("\r\n")
    l2 = net.requests[1][2].split("\r\n")
    sx.require(l1[0] == "GET /old?x=1 HTTP/1.1" and "Host: a.example:8080" in l1, "first request addresses the original URL")
    tpath = path2 if path2 else "/"
    pnum = int(port2[1:]) if port2 else (443 if scheme2 == "wss" else 80)
    hostport = "b.example" if pnum in (80, 443) else "b.example:%d" % pnum
    sx.require(l2[0] == "GET " + tpath + " HTTP/1.1", "request target after a redirect is the Location's path and query", loc=loc, got=l2[0])
    sx.require("Host: " + hostport in l2, "Host after a redirect names the Location's host and port", loc=loc, got=str([l for l in l2 if l.startswith("Host")]))
    sx.require("Origin: " + ("https" if scheme2 == "wss" else "http") + "://" + hostport in l2, "default Origin after a redirect", loc=loc)
    k1 = [l for l in l1 if l.startswith("Sec-WebSocket-Key: ")]
    k2 = [l for l in l2 if l.startswith("Sec-WebSocket-Key: ")]
    sx.require(len(k1) == 1 and len(k2) == 1 and k1 != k2, "the redirected request carries a fresh key")
    sx.require(net.resolved[-1][:2] == ("b.example", pnum), "the redirect target is what is dialled")
    cover("redirect")


def obligations(tier):
    thorough = tier == "thorough"
    hdr = []
    for h in ((1, 2, 3, 4) if thorough else (1, 3)):
        for r in ((0, 1, 3) if thorough else (0, 2)):
            hdr.append(dict(hostlen=h, reslen=r, header_kind="none", group="addr"))
            for k in ("none", "list", "dict"):
                hdr.append(dict(hostlen=h, reslen=r, header_kind=k, group="extra"))
    for k in ("none", "list", "dict"):
        hdr.append(dict(hostlen=2, reslen=1, header_kind=k, group="pairs"))
    return [
        Obligation("Q-hdr", q_hdr, hdr, bounds="option groups: address options (host override, origin, suppress_origin, scheme, port) full product; extra options (cookie, connection, "
                   "subprotocols, custom headers) full product; all options together with each absent / 1 symbolic char. host of %s symbolic ASCII chars (':' => IPv6 form), resource '/'+0..3 chars, port in {80,443,8080,1,65535}, "
                   "ws/wss; options host/origin/cookie/connection each absent / None / 1..2 symbolic chars; suppress_origin; 0..2 subprotocols of 2 chars; "
                   "header as list (0..2 lines) or dict (absent / None / value per entry)" % ((1, 2, 3, 4) if thorough else (1, 3),),
                   must_cover=["hdr", "ipv6"], budget_s=3000, kernel=["_handshake._get_handshake_headers", "_pack_hostname", "_create_sec_websocket_key"]),
        Obligation("Q-url", q_url, [dict(scheme=s) for s in ("ws", "wss")],
                   bounds="URL catalogue: scheme x host form (name, IPv4, bracketed IPv6, upper-case) x port (none, 80, 443, 8080) x path x query, full product, "
                          "through create_connection on the fake network", must_cover=["url"], step_budget=100000,
                   kernel=["_url.parse_url", "_http.connect", "_handshake.handshake", "_get_handshake_headers"]),
        Obligation("Q-reuse", q_reuse, [dict(header_kind=k) for k in ("list", "dict", "none")],
                   bounds="three successive requests from the same option objects (header list / dict / none, subprotocol list, cookie, jar cookie); host, "
                          "cookie and header value symbolic", must_cover=["reuse"], kernel=["_handshake._get_handshake_headers"]),
        Obligation("Q-app", q_app, [dict(header_kind=h, losses=n) for h in ("callable", "list", "dict") for n in (0, 1, 2)],
                   bounds="WebSocketApp.run_forever(reconnect=2) over 0..2 connection losses; header option a callable returning a changing token / a list / "
                          "a dict; cookie, origin, subprotocol set", must_cover=["app"], step_budget=300000,
                   kernel=["WebSocketApp.run_forever (setSock)", "WebSocket.connect", "_handshake._get_handshake_headers"]),
        Obligation("Q-redirect", q_redirect, [dict(scheme2=s, port2=p, path2=pa) for s in ("ws", "wss") for p in ("", ":9090") for pa in ("", "/new?y=2", "/")],
                   bounds="302 redirect from ws://a.example:8080/old?x=1 to {ws,wss}://b.example[:9090]{'', '/', '/new?y=2'}", must_cover=["redirect"],
                   step_budget=100000, kernel=["WebSocket.connect (redirect loop)", "_handshake.handshake", "_get_handshake_headers"]),
        Obligation("Q-key", q_key, [{}], bounds="all 2^128 values of the 16 random bytes (symbolic), two successive requests", must_cover=["key"],
                   solver_timeout_ms=120000, kernel=["_create_sec_websocket_key", "_get_handshake_headers"]),
        Obligation("Q-wire", q_wire, [dict(scheme=s, port=p, with_opts=w) for s in ("ws", "wss") for p in (80, 443, 8443) for w in (False, True)] +
                   [dict(scheme="ws", port=8443, with_opts=False, jar_only=j) for j in ("absent", "none", "empty")],
                   bounds="host 3 / resource 2 / cookie 2 symbolic chars; ports 80, 443, 8443; ws and wss", must_cover=["wire"],
                   kernel=["_handshake.handshake", "_socket.send"]),
    ]
