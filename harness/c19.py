"""C19 — proxying is decided by options, environment and no_proxy exactly as documented."""
import base64
import itertools
import socket as _socket

import bvsym as sx
from bvsym import core
from bvsym.chrun import ChObligation
import simnet
from simnet import Kernel, Net, accept_for
from .envpatch import EnvPatch
from .common import Obligation, cover, quiet_logging

PROPERTY = "C19"
EXPLANATION = ("N-dom (CrossHair, all of Unicode within the bound) and N-dom-ascii (bvsym ASCII SymStr, longer strings): "
               "_is_no_proxy_host on symbolic host and entry strings against the documented exemption rule.  N-cidr (bvsym "
               "bit-vectors): _is_address_in_network/_is_subnet_address with the IP address and the network as 32 symbolic bits "
               "each, for every prefix length 0..32.  N-info / N-env: get_proxy_info over the product of proxy options, the four "
               "proxy environment variables and both no_proxy sources.  N-tun: _tunnel + connect on the fake network with the "
               "proxy's reply status symbolic (3 digits).")
ASSUMPTIONS = simnet.ASSUMPTIONS + [
    "socket.inet_aton is a C boundary: stubbed in N-dom (host is not an IP literal) and replaced in N-cidr by a model that maps "
    "marker strings to 4 symbolic bytes (dotted-quad parsing itself is libc's)",
    "N-cidr: networks are given in canonical form (host bits zero); os.environ is replaced by a dict in the _url namespace",
    "SOCKS proxies (python_socks not installed) are outside the claim",
]


class FakeEnv:
    def __init__(self, real_os, env):
        self._real = real_os
        self.environ = env

    def __getattr__(self, k):
        return getattr(self._real, k)


class _NameSock:
    """the name `socket` for runs with a SYMBOLIC host name: a symbolic string is a host name, not an IP literal (stated bound)"""

    def __init__(self):
        self._real = _socket

    def __getattr__(self, k):
        return getattr(_socket, k)

    def inet_aton(self, s):
        if isinstance(s, sx.SymStr):
            raise _socket.error("illegal IP address string passed to inet_aton")
        return _socket.inet_aton(s)


class _Patch:
    """temporarily replace, in every repository module, the bindings of os / socket (by identity of the real module) and of
    private helpers given by name (by identity of the function object websocket._url holds under that name, if it has one)"""

    def __init__(self, **kw):
        self.kw = kw

    def __enter__(self):
        import os as real_os
        import websocket._url as U
        self.ep = EnvPatch()
        for k, v in self.kw.items():
            if k == "os":
                self.ep.os_env(v.environ)
            elif k == "socket":
                self.ep.replace(_socket, v)
                self.ep.replace(_socket.inet_aton, v.inet_aton)
            elif k == "_is_ip_address":
                f = getattr(U, k, None)
                if f is not None:
                    self.ep.replace(f, v)
                ns = _NameSock()
                self.ep.replace(_socket, ns)
                self.ep.replace(_socket.inet_aton, ns.inet_aton)
            else:
                raise AssertionError(k)
        return U

    def __exit__(self, *a):
        self.ep.restore()


def _exempt_ref(host, entries):
    """reference over (Sym)Str values; forks like the implementation does"""
    for entry in entries:
        if entry == "*" or entry == host:
            return True
        if entry.startswith("."):
            d = entry.lstrip(".")
            if len(d) and (host == d or host.endswith("." + d)):
                return True
    return False


def n_dom_ascii(hl, el, source="option"):
    """host of hl and entry of el symbolic ASCII characters; source: no_proxy given by option or by environment"""
    quiet_logging()
    import os as real_os
    host = sx.sym_str("h", hl)
    entry = sx.sym_str("e", el)
    if source != "option":
        eb = entry.encode()
        for i in range(el):
            sx.assume(sx.And(eb[i] != 44, eb[i] != 32))  # the environment value is a comma list with blanks removed
    env = {}
    if source == "env":
        env["no_proxy"] = entry
    elif source == "ENV":
        env["NO_PROXY"] = entry
    with _Patch(_is_ip_address=lambda a: False, os=FakeEnv(real_os, env)) as U:
        got = sx.unit(U, "_is_no_proxy_host")(host, [entry] if source == "option" else None)
    if source != "option" and el == 0:
        exp = False
    else:
        exp = _exempt_ref(host, [entry])
    sx.require(bool(got) == exp, "host exempt exactly when the list names '*', the host itself, or a leading-dot domain it belongs to "
               "(on a label boundary)", hl=hl, el=el, source=source)
    cover("exempt" if got else "not-exempt")


class InetModel:
    """replacement for the name `socket` in websocket._url: inet_aton maps marker strings to symbolic 4-byte values"""
    error = _socket.error

    def __init__(self, table):
        self.table = table

    def inet_aton(self, s):
        if s in self.table:
            return self.table[s]
        raise _socket.error("illegal IP address string passed to inet_aton")


def n_cidr(p):
    """ip in net/p ?  ip and net are 32 symbolic bits each (net canonical); p concrete 0..32"""
    quiet_logging()
    ip = sx.sym_bytes("ip", 4)
    net = sx.sym_bytes("net", 4)
    ipv = sx.from_bytes_be(ip)
    netv = sx.from_bytes_be(net)
    mask = (0xFFFFFFFF << (32 - p)) & 0xFFFFFFFF
    sx.assume((netv & (~mask & 0xFFFFFFFF)) == 0)  # canonical network
    with _Patch(socket=InetModel({"IP": ip, "NET": net})) as U:
        sub = sx.unit(U, "_is_subnet_address")("NET/%d" % p)
        sx.require(sub, "every prefix length 0..32 is a CIDR block", p=p)
        inn = sx.unit(U, "_is_address_in_network")("IP", "NET/%d" % p)
        exp = (ipv & mask) == netv
        sx.require(sx.Iff(inn, exp), "address is in the block exactly when its first p bits equal the network's", p=p)
        got = sx.unit(U, "_is_no_proxy_host")("IP", ["NET/%d" % p])
        sx.require(sx.Iff(got, exp), "an IP target is exempt exactly when a listed CIDR block contains it", p=p)
        # the same with a second, non-matching entry and a host-name entry in the list
        got2 = sx.unit(U, "_is_no_proxy_host")("IP", ["example.org", "NET/%d" % p])
        sx.require(sx.Iff(got2, exp), "other list entries do not change the CIDR decision", p=p)
    cover("cidr")


def n_subnet_syntax(kind):
    quiet_logging()
    import websocket._url as U
    s, exp = {"noslash": ("10.0.0.0", False), "two": ("10.0.0.0/8/1", False), "badmask": ("10.0.0.0/x", False), "33": ("10.0.0.0/33", False),
              "neg": ("10.0.0.0/-1", False), "badip": ("300.1.1.1/8", False), "ok8": ("10.0.0.0/8", True), "ok32": ("10.1.2.3/32", True),
              "ok0": ("0.0.0.0/0", True)}[kind]
    try:
        got = sx.unit(U, "_is_subnet_address")(s)
    except Exception as e:
        sx.require(False, "_is_subnet_address raised %s" % type(e).__name__, s=s)
        return
    sx.require(bool(got) == exp, "CIDR syntax: a.b.c.d/p with 0 <= p <= 32", s=s)
    cover("syntax")


def n_info(secure):
    """get_proxy_info over options x environment (solver choices); strings concrete per path"""
    quiet_logging()
    import os as real_os
    from websocket._exceptions import WebSocketProxyException
    opt_host = (None, "optproxy")[sx.choice("opt_host", 2)]
    opt_port = (0, 3128)[sx.choice("opt_port", 2)]
    opt_auth = (None, ("u", "p"))[sx.choice("opt_auth", 2)]
    env, meaning = {}, {}
    for idx, name in enumerate(("http_proxy", "HTTP_PROXY", "https_proxy", "HTTPS_PROXY")):
        v = sx.choice(name, 3 if name.isupper() else 4)  # lower-case variables may also be SET BUT BLANK (then they still shadow their upper-case twin)
        label = name.lower().replace("_", "") + ("u" if name.isupper() else "l")
        if v == 1:
            env[name] = "http://%s.example:%d/" % (label, 8001 + idx)
            meaning[name] = (label + ".example", 8001 + idx, None)
        elif v == 2:
            env[name] = "http://us%%40er:pw@%s-auth.example:9000" % label
            meaning[name] = (label + "-auth.example", 9000, ("us@er", "pw"))
        elif v == 3:
            env[name] = ""
            meaning[name] = (None, 0, None)
    np_src = sx.choice("np_src", 5)  # none / option exempt / env exempt / option not matching + env exempt
    no_proxy_opt = None
    if np_src == 1:
        no_proxy_opt = ["target.example"]
    elif np_src == 2:
        env["no_proxy"] = "other.example, target.example"
    elif np_src == 3:
        no_proxy_opt = ["other.example"]
        env["no_proxy"] = "target.example"
    elif np_src == 4:  # a blank no_proxy shadows NO_PROXY: nothing is exempt
        env["no_proxy"] = ""
        env["NO_PROXY"] = "target.example"
    with _Patch(os=FakeEnv(real_os, env)) as U:
        try:
            got = U.get_proxy_info("target.example", secure, opt_host, opt_port, opt_auth, no_proxy_opt)
        except WebSocketProxyException:
            got = "proxy-exc"
    # reference
    exempt = np_src in (1, 2)  # option wins over the environment when given (np_src 3: option lists another host)
    if exempt:
        exp = (None, 0, None)
    elif opt_host:
        exp = "proxy-exc" if not opt_port else (opt_host, opt_port, opt_auth)
    else:
        key = "https_proxy" if secure else "http_proxy"
        if key in env:
            exp = meaning[key]
        elif key.upper() in env:
            exp = meaning[key.upper()]
        else:
            exp = (None, 0, None)
    sx.require(got == exp, "proxy used exactly when given by option or by the scheme's environment variable and the target is not exempt; "
               "ws never uses https_proxy and wss never http_proxy; option no_proxy wins over the environment", secure=secure, got=str(got), exp=str(exp),
               env=str(sorted(env)), opt=str(opt_host), np=np_src)
    cover("proxied" if (isinstance(got, tuple) and got[0]) else "direct")


ENV_CREDS = ("plain", "us@er", "p:w", "a/b", "s3cr/et#x", "q?x=1", "100%", "sp ace", "a%2Fb")


def n_env_auth(secure, upper):
    """credentials inside the proxy URL of the environment variable are percent-encoded there (they may contain @ : / ? # %):
    host, port and the decoded user / password come out exactly"""
    quiet_logging()
    import os as real_os
    import urllib.parse as UP
    user = ENV_CREDS[sx.choice("user", len(ENV_CREDS))]
    pwi = sx.choice("pw", len(ENV_CREDS) + 1)
    pw = ENV_CREDS[pwi] if pwi < len(ENV_CREDS) else None  # None: a user name only (http://user@proxy:3128), as the option form allows
    name = "https_proxy" if secure else "http_proxy"
    if upper:
        name = name.upper()
    cred = UP.quote(user, safe="") + ("" if pw is None else ":" + UP.quote(pw, safe=""))
    env = {name: "http://%s@envproxy.example:3128%s" % (cred, ("", "/")[sx.choice("slash", 2)])}
    with _Patch(os=FakeEnv(real_os, env)) as U:
        try:
            got = U.get_proxy_info("target.example", secure)
        except (sx.Control, sx.ConcreteFailure, sx.ReplayMismatch):
            raise
        except Exception as e:
            got = "raised %s" % type(e).__name__
    exp = ("envproxy.example", 3128, (user, pw))
    sx.require(got == exp, "proxy host, port and credentials from the environment variable: the URL is split first, then user and password are "
               "percent-decoded", got=str(got), exp=str(exp), secure=secure)
    cover("env-auth")


def n_tun(secure, auth):
    """connection through an HTTP proxy: CONNECT request, credentials, status gate (symbolic 3-digit status), then the
    WebSocket handshake addressed to the origin"""
    quiet_logging()
    import websocket
    d = sx.sym_str("pst", 3)
    db = d.encode()
    sx.assume(sx.And(db[0] >= 49, db[0] <= 53, db[1] >= 48, db[1] <= 57, db[2] >= 48, db[2] <= 57))
    phase = {"n": 0}

    def respond(server, head, key):
        if phase["n"] == 0:
            phase["n"] = 1
            return (b"HTTP/1.1 " + db + b" Connection established\r\n\r\n", "more-http")
        return ("HTTP/1.1 101 Switching Protocols\r\nUpgrade: websocket\r\nConnection: Upgrade\r\nSec-WebSocket-Accept: %s\r\n\r\n" % accept_for(key)).encode()

    k = Kernel(step_budget=3000)
    net = Net(k, [{"respond": respond}], tls=secure)
    simnet.install(k, net, tls=secure)
    opts = dict(http_proxy_host="proxy.example", http_proxy_port=3128)
    if auth == "userpass":
        opts["http_proxy_auth"] = ("user", "pa:ss")
    elif auth == "user":
        opts["http_proxy_auth"] = ("user", None)
    elif auth == "long":
        opts["http_proxy_auth"] = ("service-account-with-a-long-name", "t0ken-" + "x" * 70)
    ws, err = None, None
    try:
        try:
            ws = websocket.create_connection(("wss" if secure else "ws") + "://origin.example:8443/chat", timeout=5, **opts)
        except websocket.WebSocketException as e:
            err = e
        except (sx.Control, sx.ConcreteFailure, sx.ReplayMismatch):
            raise
        except Exception as e:
            sx.require(False, "connect through proxy raised %s" % type(e).__name__)
            return
    finally:
        k.shutdown()
        simnet.uninstall()
    is200 = sx.And(db[0] == 50, db[1] == 48, db[2] == 48)
    sx.require(net.resolved and net.resolved[0][:2] == ("proxy.example", 3128), "the proxy's address is dialled, not the origin's", got=str(net.resolved))
    reqs = [r[2] for r in net.requests]
    sx.require(len(reqs) >= 1, "a request was sent to the proxy")
    lines = reqs[0].split("\r\n")
    sx.require(lines[0] == "CONNECT origin.example:8443 HTTP/1.1", "first request is CONNECT host:port", got=lines[0])
    sx.require("Host: origin.example:8443" in lines, "CONNECT carries the origin as Host")
    cred = [l for l in lines if l.lower().startswith("proxy-authorization:")]
    if auth == "none":
        sx.require(not cred, "no credentials unless configured")
    else:
        raw = {"userpass": "user:pa:ss", "user": "user", "long": "service-account-with-a-long-name:t0ken-" + "x" * 70}[auth]
        sx.require(cred == ["Proxy-Authorization: Basic " + base64.b64encode(raw.encode()).decode()], "Basic credentials as configured", got=str(cred))
    if ws is not None:
        sx.require(is200, "the client proceeds only on a 200 reply from the proxy", auth=auth, secure=secure)
        sx.require(len(reqs) == 2 and reqs[1].startswith("GET /chat HTTP/1.1"), "then the WebSocket handshake runs through the tunnel")
        sx.require("Host: origin.example:8443" in reqs[1].split("\r\n"), "addressed to the origin")
        sock = net.socks[0]
        sx.require(bool(getattr(sock, "tls", False)) == secure, "TLS through the tunnel exactly for wss")
        if secure:
            sx.require(getattr(sock, "tls_hostname", None) == "origin.example", "TLS is negotiated for the origin's name")
        cover("tunnelled")
    else:
        sx.require(sx.Not(is200), "a 200 reply must let the handshake proceed", err=str(err)[:60])
        sx.require(len(reqs) == 1, "nothing is sent through a tunnel that was refused")
        sx.require(all(s.closed for s in net.socks), "transport closed after a refused tunnel")
        cover("tunnel-refused")


def n_redirect(first_exempt, second_exempt, src):
    """a proxy is configured (option or environment) and the first host answers with a redirect to a second host: for EACH
    connection of the chain the proxy decision is taken for ITS OWN target - proxied (CONNECT with the configured credentials)
    unless that host is exempt, direct if it is"""
    quiet_logging()
    import os as real_os
    import websocket
    exempt = [h for h, e in (("first.example", first_exempt), ("second.example", second_exempt)) if e]
    n = {"get": 0}

    def respond(server, head, key):
        if head.startswith("CONNECT "):
            return (b"HTTP/1.1 200 Connection established\r\n\r\n", "more-http")
        n["get"] += 1
        if n["get"] == 1:
            return b"HTTP/1.1 302 Found\r\nLocation: ws://second.example/b\r\n\r\n"
        return ("HTTP/1.1 101 Switching Protocols\r\nUpgrade: websocket\r\nConnection: Upgrade\r\nSec-WebSocket-Accept: %s\r\n\r\n" % accept_for(key)).encode()

    k = Kernel(step_budget=4000)
    net = Net(k, [{"respond": respond}])
    simnet.install(k, net)
    ep = EnvPatch()
    env = {}
    opts = {}
    if src == "option":
        opts = dict(http_proxy_host="proxy.example", http_proxy_port=3128, http_proxy_auth=("user", "pw"), http_no_proxy=list(exempt) or None)
    else:
        env["http_proxy"] = "http://user:pw@proxy.example:3128"
        if exempt:
            env["no_proxy"] = ",".join(exempt)
    ep.os_env(env)
    try:
        try:
            ws = websocket.create_connection("ws://first.example/a", timeout=5, **opts)
        except (sx.Control, sx.ConcreteFailure, sx.ReplayMismatch):
            raise
        except Exception as e:
            sx.require(False, "connect across a redirect raised %s" % type(e).__name__, exempt=str(exempt), src=src)
            return
    finally:
        ep.restore()
        k.shutdown()
        simnet.uninstall()
    dialled = [r[0] for r in net.resolved]
    exp = ["first.example" if first_exempt else "proxy.example", "second.example" if second_exempt else "proxy.example"]
    sx.require(dialled == exp, "each connection of a redirect chain dials the proxy unless ITS target is exempt", got=str(dialled), exp=str(exp),
               exempt=str(exempt), src=src)
    connects = [r[2].split("\r\n") for r in net.requests if r[2].startswith("CONNECT ")]
    exp_connects = [("CONNECT %s:80 HTTP/1.1" % h) for h, e in (("first.example", first_exempt), ("second.example", second_exempt)) if not e]
    sx.require([c[0] for c in connects] == exp_connects, "a tunnel is requested for every non-exempt target of the chain, and only for those",
               got=str([c[0] for c in connects]), exp=str(exp_connects), src=src)
    for c in connects:
        sx.require("Proxy-Authorization: Basic " + base64.b64encode(b"user:pw").decode() in c, "every tunnel request carries the configured credentials",
                   src=src, got=str([l for l in c if l.lower().startswith("proxy-")]))
    cover("redirect-proxy")


def n_reuse(first_env, second_env):
    """the SAME (empty) http_no_proxy list object is passed for two decisions while the environment's no_proxy changes in between"""
    quiet_logging()
    import os as real_os
    env = {}
    lst = []
    outs = []
    with _Patch(_is_ip_address=lambda a: False, os=FakeEnv(real_os, env)) as U:
        for val in (first_env, second_env):
            env.clear()
            if val:
                env["no_proxy"] = val
            outs.append(U.get_proxy_info("target.example", False, "proxy.example", 3128, None, lst))
    exp = [(None, 0, None) if (v and "target.example" in v.split(",")) else ("proxy.example", 3128, None) for v in (first_env, second_env)]
    sx.require(outs == exp, "each decision consults the environment as it is NOW when the option lists nothing", got=str(outs), exp=str(exp))
    sx.require(lst == [], "the caller's no_proxy list is not modified", got=str(lst))
    cover("reuse")


def obligations(tier):
    thorough = tier == "thorough"
    dom = [dict(hl=h, el=e) for h in range(0, (12 if thorough else 8)) for e in range(0, (10 if thorough else 6))]
    dom += [dict(hl=h, el=e, source=s) for s in ("env", "ENV") for h in (1, 3) for e in (0, 1, 2, 3)]
    return [
        ChObligation("N-dom", "ch/c19_dom.py", "dom_rule", timeout_s=120, bounds="host <= 4, entry <= 3 characters over ALL of Unicode",
                     kernel=["_url._is_no_proxy_host"], assumptions=["_is_ip_address stubbed to False (C boundary socket.inet_aton)"]),
        ChObligation("N-dom2", "ch/c19_dom.py", "dom_rule2", timeout_s=150, bounds="two-entry list: host <= 3, entries <= 2 characters, all of Unicode",
                     kernel=["_url._is_no_proxy_host"]),
        Obligation("N-dom-ascii", n_dom_ascii, dom, bounds="host of 0..%d and entry of 0..%d symbolic ASCII characters (look-alike suffixes included); no_proxy from the "
                   "option, from no_proxy and from NO_PROXY" % (11 if thorough else 7, 9 if thorough else 5), must_cover=["exempt", "not-exempt"], budget_s=2400,
                   kernel=["_url._is_no_proxy_host"]),
        Obligation("N-cidr", n_cidr, [dict(p=p) for p in range(0, 33)], bounds="EVERY prefix length 0..32; address and (canonical) network 32 symbolic bits each",
                   must_cover=["cidr"], kernel=["_url._is_address_in_network", "_is_subnet_address", "_is_no_proxy_host"]),
        Obligation("N-syntax", n_subnet_syntax, [dict(kind=k) for k in ("noslash", "two", "badmask", "33", "neg", "badip", "ok8", "ok32", "ok0")],
                   bounds="9 CIDR syntax cases through the real socket.inet_aton", must_cover=["syntax"], kernel=["_url._is_subnet_address"]),
        Obligation("N-info", n_info, [dict(secure=s) for s in (False, True)], bounds="proxy host/port/auth options x {unset, plain, with credentials; lower-case names also set-but-blank} for each of "
                   "http_proxy, HTTP_PROXY, https_proxy, HTTPS_PROXY x 5 no_proxy source patterns (incl. a blank no_proxy next to NO_PROXY), ws and wss (full product)",
                   must_cover=["proxied", "direct"], budget_s=1800, kernel=["_url.get_proxy_info", "_is_no_proxy_host"]),
        Obligation("N-env-auth", n_env_auth, [dict(secure=s, upper=u) for s in (False, True) for u in (False, True)],
                   bounds="proxy URL in http_proxy / https_proxy (lower and upper case) with percent-encoded user and password from a catalogue of 9 "
                          "values containing @ : / ? # % and space (all 81 pairs, plus each user name without a password), with and without a trailing slash", must_cover=["env-auth"],
                   kernel=["_url.get_proxy_info"]),
        Obligation("N-redirect", n_redirect, [dict(first_exempt=a, second_exempt=b, src=c) for a in (False, True) for b in (False, True) for c in ("option", "env")],
                   bounds="proxy given by option or by http_proxy; a 302 from first.example to second.example; each of the two hosts exempt or not "
                          "(http_no_proxy option / no_proxy variable)", must_cover=["redirect-proxy"], step_budget=100000,
                   kernel=["WebSocket.connect (redirect)", "_http.connect", "_get_addrinfo_list", "_url.get_proxy_info", "_tunnel"]),
        Obligation("N-reuse", n_reuse, [dict(first_env=a, second_env=b) for a in ("", "target.example", "other.example") for b in ("", "target.example", "other.example")],
                   bounds="two successive decisions with one shared empty no_proxy list object and every pair of environment values", must_cover=["reuse"],
                   kernel=["_url._is_no_proxy_host", "get_proxy_info"]),
        Obligation("N-tun", n_tun, [dict(secure=s, auth=a) for s in (False, True) for a in ("none", "user", "userpass", "long")],
                   bounds="proxy reply status symbolic over 100..599 (3 symbolic digits); no / user / user:password / 109-byte credentials (base64 longer than one MIME line); ws and wss",
                   must_cover=["tunnelled", "tunnel-refused"], step_budget=100000,
                   kernel=["_http._tunnel", "_http.connect", "_get_addrinfo_list", "_ssl_socket (stubbed)", "_handshake.handshake"]),
    ]
