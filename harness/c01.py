"""C01 — every frame written is a well-formed masked RFC 6455 frame with exact payload."""
import bvsym as sx
from bvsym import core
from .envpatch import EnvPatch
from .common import (FakeOs, FakeSock, KeySource, Obligation, cover, new_ws, quiet_logging, ref_encode, ref_len_field)

PROPERTY = "C01"
EXPLANATION = ("Bounded symbolic execution of ABNF.create_frame/format/_get_masked/mask/_mask and "
               "WebSocket.send/send_binary/send_frame/ping/pong/send_close/close on symbolic payload bytes, key "
               "bytes, FIN, opcode and (for the header) a symbolic payload LENGTH; the bytes handed to the transport "
               "are compared, as terms, with an independent reference encoder.")
ASSUMPTIONS = [
    "transport accepts every byte offered (short writes are C12)",
    "os.urandom replaced by a source that returns the symbolic key and logs each draw",
    "text payloads: symbolic ASCII strings plus concrete non-ASCII samples (str.encode is CPython's)",
]

ENTRIES = ("send", "send_binary", "send_frame", "ping", "pong", "send_close", "close")


def _key(keysrc):
    if keysrc == "str":
        return sx.sym_str("k", 4)
    return sx.sym_bytes("k", 4)


def _as_bytes(k):
    return k.encode("latin-1") if isinstance(k, (str, sx.SymStr)) else k


def f_short(n, entry, via=None):
    """the same frame written in two pieces (symbolic split point): wire and RETURN VALUE must not depend on it"""
    quiet_logging()
    payload = sx.sym_bytes("p", n)
    key = sx.sym_bytes("k", 4)
    exp = ref_encode(1, 2, payload, key)
    F = len(exp)
    first = sx.choice("first", F - 1) + 1
    sock = FakeSock(accept=[first])
    ws = new_ws(sock, via=via, get_mask_key=KeySource([key]))
    from websocket._abnf import ABNF
    try:
        if entry == "send_binary":
            ret = ws.send_binary(payload)
        elif entry == "send":
            ret = ws.send(payload, 2)
        else:
            ret = ws.send_frame(ABNF.create_frame(payload, 2, 1))
    except (sx.Control, sx.ConcreteFailure, sx.ReplayMismatch):
        raise
    except Exception as e:
        sx.require(False, "send-side call raised %s under a short write" % type(e).__name__, entry=entry)
        return
    sx.require(sock.wire() == exp, "frame on the wire under a short write", entry=entry)
    sx.require(ret == F, "return value is the number of frame bytes written, also when the transport accepts them in pieces", entry=entry)
    cover("short-ret")


def f_full(entry, n, keysrc="default", kind="bytes", trace=False, text=None, sparse=0):
    """one send-side call with an n-byte symbolic payload; compare the wire with the reference"""
    import websocket
    import websocket._abnf as A
    from websocket._abnf import ABNF
    quiet_logging()
    if trace:
        import io
        import logging
        websocket.enableTrace(True, handler=logging.StreamHandler(io.StringIO()), level="DEBUG")
        cover("trace-on")
    key = _key(keysrc)
    src = KeySource([key])
    ep = EnvPatch()
    ep.urandom(src if keysrc == "default" else KeySource([]), prefer=("websocket._abnf",))
    try:
        _f_full_body(entry, n, keysrc, kind, text, key, src, sparse)
    except (sx.Control, sx.ConcreteFailure, sx.ReplayMismatch):
        raise
    except Exception as e:
        sx.require(False, "send-side call raised %s" % type(e).__name__, entry=entry)
    finally:
        ep.restore()
        if trace:
            websocket.enableTrace(False)
            quiet_logging()


def _sparse_payload(n, sparse, k):
    """n bytes, symbolic at the first and last `sparse` positions and at one position of each residue mod 4 in the
    middle, zero elsewhere (keeps the terms small for very long payloads)"""
    mid = n // 2
    pos = sorted(set(list(range(min(sparse, n))) + list(range(max(0, n - sparse), n)) + [p for p in range(mid, min(n, mid + 4))]))
    sym = sx.sym_bytes("p", len(pos))
    out = [0] * n
    for j, p in enumerate(pos):
        out[p] = sym[j]
    return sx.mk_bytes(out, k)


def _f_full_body(entry, n, keysrc, kind, text, key, src, sparse=0):
    from websocket._abnf import ABNF
    if True:
        sock = FakeSock()
        ws = new_ws(sock, get_mask_key=None if keysrc == "default" else src)
        k = bytes if kind == "bytes" else bytearray
        fin = 1
        ret = None
        if entry in ("send", "send_frame"):
            opcode = sx.sym_int("opcode", 4)
            sx.assume(sx.Or([opcode == o for o in (0, 1, 2, 8, 9, 10)]))
            if text is not None:
                payload = text if text != "SYM" else sx.sym_str("t", n)
                sx.assume(opcode == 1)
                expect_payload = payload.encode("utf-8")
            else:
                payload = sx.sym_bytes("p", n, k)
                expect_payload = payload
            sx.assume(sx.Or(opcode < 8, len(expect_payload) <= 125))  # RFC-legal control sizes
            if entry == "send":
                ret = ws.send(payload, opcode)
            else:
                fin = sx.sym_int("fin", 1)
                fr = ABNF.create_frame(payload, opcode, fin)
                ret = ws.send_frame(fr)
        elif entry == "send_binary":
            payload = sx.sym_bytes("p", n, k) if not sparse else _sparse_payload(n, sparse, k)
            expect_payload = payload
            opcode = 2
            ret = ws.send_binary(payload)
        elif entry in ("ping", "pong"):
            if text is not None:
                payload = text if text != "SYM" else sx.sym_str("t", n)
                expect_payload = payload.encode("utf-8")
            else:
                payload = sx.sym_bytes("p", n, k)
                expect_payload = payload
            opcode = 9 if entry == "ping" else 10
            getattr(ws, entry)(payload)
        else:  # send_close / close
            status = sx.sym_int("status", 16)
            reason = sx.sym_bytes("p", n, k)
            opcode = 8
            expect_payload = sx.to_bytes_be(status, 2) + reason
            if entry == "send_close":
                ws.send_close(status, reason)
            else:
                sock.incoming = ["eof"]
                ws.close(status, reason, timeout=0)
        wire = sock.wire()
        exp = ref_encode(fin, opcode, expect_payload, _as_bytes(key))
        hl = len(exp) - len(expect_payload) - 4
        sx.require(len(wire) == len(exp), "frame length on the wire", entry=entry)
        sx.require(wire[:hl] == exp[:hl], "header bytes (FIN/RSV/opcode, MASK bit, shortest length form)", entry=entry)
        sx.require(wire[hl:hl + 4] == exp[hl:hl + 4], "mask key on the wire is the key drawn", entry=entry)
        sx.require(wire[hl + 4:] == exp[hl + 4:], "payload XOR key (cyclic)", entry=entry)
        sx.require(src.draws == [4], "exactly one draw of 4 key bytes per frame", entry=entry)
        if ret is not None:
            sx.require(ret == len(exp), "return value is the number of frame bytes", entry=entry)
        else:
            cover("no-return-entry")
        cover("frame-checked")


class AbstractPayload:
    """payload object of which only the length matters; the length is a solver variable"""

    def __init__(self, n):
        self.n = n

    def __sx_len__(self):
        return self.n

    def __len__(self):
        return self.n


def f_hdr():
    """header construction for an arbitrary payload length 0 <= L < 2^63 (L is a solver variable)"""
    from websocket._abnf import ABNF
    L = sx.sym_int("L", 63)
    fin = sx.sym_int("fin", 1)
    opcode = sx.sym_int("opcode", 4)
    sx.assume(sx.Or([opcode == o for o in (0, 1, 2, 8, 9, 10)]))
    fr = ABNF(fin, 0, 0, 0, opcode, 1, AbstractPayload(L))
    fr._get_masked = lambda mask_key: b""  # stub: payload masking is F-full's subject
    fr.get_mask_key = lambda n: b"\0\0\0\0"
    out = fr.format()
    b0 = (fin << 7) | opcode
    sx.require(out[0] == b0, "first header byte")
    if L <= 125:
        cover("len7")
        sx.require(len(out) == 2, "7-bit form is 2 bytes")
        sx.require(out[1] == (0x80 | L), "7-bit length with MASK bit")
    elif L <= 0xFFFF:
        cover("len16")
        sx.require(len(out) == 4, "16-bit form is 4 bytes")
        sx.require(out[1] == (0x80 | 126), "16-bit marker with MASK bit")
        sx.require(((out[2] << 8) | out[3]) == L, "16-bit big-endian length")
    else:
        cover("len64")
        sx.require(len(out) == 10, "64-bit form is 10 bytes")
        sx.require(out[1] == (0x80 | 127), "64-bit marker with MASK bit")
        sx.require(sx.from_bytes_be(out[2:10]) == L, "64-bit big-endian length")


def f_ref(n, keykind="bytes", datakind="bytes"):
    """ABNF.mask is the cyclic XOR and an involution"""
    from websocket._abnf import ABNF
    key = sx.sym_str("k", 4) if keykind == "str" else sx.sym_bytes("k", 4)
    data = sx.sym_str("d", n) if datakind == "str" else sx.sym_bytes("d", n)
    out = ABNF.mask(key, data)
    kb, db = _as_bytes(key), _as_bytes(data)
    sx.require(len(out) == n, "mask keeps the length")
    for i in range(n):
        sx.require(out[i] == (db[i] ^ kb[i % 4]), "mask byte i = data[i] ^ key[i mod 4]", i=i)
    back = ABNF.mask(key, out)
    sx.require(back == db, "mask is an involution")
    cover("mask-checked")


def f_threads(t, nwrites):
    """frames of concurrent senders stay whole on the wire (the interleaving query of C12 W-order-send, shared)"""
    from .c12 import w_order_send
    return w_order_send(t, 2, nwrites)


def obligations(tier):
    thorough = tier == "thorough"
    nmax = 700 if thorough else 140
    full = []
    variants = [("default", "bytes"), ("bytes", "bytes"), ("str", "bytes"), ("default", "bytearray"),
                ("bytes", "bytearray"), ("str", "bytearray")]
    for n in range(0, nmax + 1):
        ks, kd = variants[n % len(variants)]
        full.append(dict(entry="send_frame", n=n, keysrc=ks, kind=kd))
        ks, kd = variants[(n + 1) % len(variants)]
        full.append(dict(entry="send", n=n, keysrc=ks, kind=kd))
        ks, kd = variants[(n + 2) % len(variants)]
        full.append(dict(entry="send_binary", n=n, keysrc=ks, kind=kd))
        if n <= 125:
            ks, kd = variants[(n + 3) % len(variants)]
            full.append(dict(entry="ping", n=n, keysrc=ks, kind=kd))
            ks, kd = variants[(n + 4) % len(variants)]
            full.append(dict(entry="pong", n=n, keysrc=ks, kind=kd))
        if n <= 123:
            ks, kd = variants[(n + 5) % len(variants)]
            full.append(dict(entry="send_close", n=n, keysrc=ks, kind=kd))
            full.append(dict(entry="close", n=n, keysrc=variants[n % 6][0], kind="bytes"))
    # full option product at the boundary lengths
    for n in (0, 1, 3, 4, 5, 125, 126, 127):
        for ks, kd in variants:
            for entry in ENTRIES:
                if entry in ("ping", "pong") and n > 125 or entry in ("send_close", "close") and n > 123:
                    continue
                full.append(dict(entry=entry, n=n, keysrc=ks, kind=kd))
    # trace logging on
    for n in (0, 2, 126):
        for entry in ("send", "send_frame", "ping", "close"):
            if entry in ("ping", "close") and n > 123:
                continue
            full.append(dict(entry=entry, n=n, keysrc="default", kind="bytes", trace=True))
    # text: symbolic ASCII and concrete samples of every UTF-8 length class
    for n in (0, 1, 5, 126):
        full.append(dict(entry="send", n=n, keysrc="default", text="SYM"))
        full.append(dict(entry="send_frame", n=n, keysrc="str", text="SYM"))
    for t in ("é", "€ß", "\U0001F600x", "aࠀ￿\U00010000\U0010ffff", "é" * 70):
        for entry in ("send", "send_frame", "ping", "pong"):
            full.append(dict(entry=entry, n=0, keysrc="default", text=t))
    if thorough:
        big = [dict(entry="send_binary", n=n, keysrc="default", kind="bytes") for n in (65535, 65536, 70000)]
    else:
        big = [dict(entry="send_binary", n=n, keysrc="default", kind="bytes", sparse=16) for n in (65534, 65535, 65536, 65537, 70000)]
    seen, uniq = set(), []
    for s in full:
        k = tuple(sorted(s.items()))
        if k not in seen:
            seen.add(k)
            uniq.append(s)
    obs = [
        Obligation("F-full", f_full, uniq, bounds="every payload length 0..%d (control <=125), all 6 opcodes, FIN 0/1, "
                   "3 key sources, bytes/bytearray, trace on/off at sample lengths; payload, key, status symbolic" % nmax,
                   outside=["payload CONTENT for lengths outside the listed ones (header covered for all by F-hdr)",
                            "wsaccel masker (not installed)", "str payload with a non-text opcode"],
                   must_cover=["frame-checked", "trace-on", "no-return-entry"], budget_s=900,
                   kernel=["ABNF.create_frame", "ABNF.format", "ABNF._get_masked", "ABNF.mask", "_mask",
                           "WebSocket.send", "send_binary", "send_frame", "ping", "pong", "send_close", "close", "_socket.send"]),
        Obligation("F-hdr", f_hdr, [{}], bounds="ALL payload lengths 0 <= L < 2^63 (L is a 63-bit solver variable), FIN and opcode symbolic",
                   must_cover=["len7", "len16", "len64"], kernel=["ABNF.format"],
                   assumptions=["_get_masked stubbed to b'' in F-hdr (masking is F-full's subject)"]),
        Obligation("F-ref", f_ref, [dict(n=n, keykind=kk, datakind=dk) for n in (list(range(0, 18)) + [125, 126, 127, 200])
                                    for kk in ("bytes", "str") for dk in ("bytes", "str")],
                   bounds="n in 0..17,125,126,127,200; key and data as bytes and as ASCII str", must_cover=["mask-checked"],
                   kernel=["ABNF.mask", "_mask"]),
        Obligation("F-short", f_short, [dict(n=n, entry=e) for n in (0, 1, 5, 126) for e in ("send", "send_binary", "send_frame")] +
                   [dict(n=n, entry="send", via=v) for n in (0, 5) for v in ("dispatcher", "ssl-dispatcher")],
                   bounds="payload 0,1,5,126 bytes written in two pieces, every split point (symbolic), plain and through Dispatcher / SSLDispatcher; "
                          "full short-write coverage is C12",
                   must_cover=["short-ret"], kernel=["WebSocket.send_frame", "_socket.send"]),
        Obligation("F-threads", f_threads, [dict(t=2, nwrites=w) for w in (1, 2)],
                   bounds="2 sender threads, each frame written in 1..2 pieces, ALL interleavings of the extracted lock/write events (C12's query)",
                   must_cover=["order-send"], solver_timeout_ms=120000, kernel=["WebSocket.send_frame (send lock)"]),
        Obligation("F-big", f_full, big, bounds="payload lengths %s; %s" % ([b["n"] for b in big], "every byte symbolic" if thorough else "symbolic at the first/last 16 positions and 4 middle ones, zero elsewhere"),
                   must_cover=["frame-checked"], budget_s=1200, solver_timeout_ms=120000, chunk_s=600,
                   kernel=["ABNF.format", "_mask"]),
    ]
    return obs
