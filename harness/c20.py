"""C20 — cookies are replayed only to hosts inside the domain that set them."""
import itertools

import bvsym as sx
from bvsym import core
import simnet
from simnet import Kernel, Net, accept_for
from .common import reset_cookie_jar
from .common import Obligation, cover, quiet_logging

PROPERTY = "C20"
EXPLANATION = ("J-get: SimpleCookieJar.get executed on SYMBOLIC host and stored-domain strings (ASCII SymStr) against the "
               "domain-match rule (equal or '.'+domain suffix, case-insensitive).  J-hist: histories of handshake responses "
               "whose Set-Cookie headers are assembled from solver-chosen catalogue entries (names, values, domains in several "
               "spellings, single and merged multi-line form), each followed by real handshakes (create_connection on the fake "
               "network) to hosts inside, outside and look-alike to those domains; the Cookie header of every request is compared "
               "with a reference jar.")
ASSUMPTIONS = simnet.ASSUMPTIONS + [
    "J-get: jar keys are as the code stores them (lower-cased, leading dot); strings ASCII",
    "J-hist: Set-Cookie strings are concrete per explored path (http.cookies' regex parser runs natively); one Domain per response",
    "the process-wide jar is emptied at the start of every path",
]


def j_get(hl, dl, two=False):
    quiet_logging()
    import http.cookies
    from websocket._cookiejar import SimpleCookieJar
    host = sx.sym_str("h", hl)
    d = sx.sym_str("d", dl)
    db = d.encode()
    for i in range(dl):
        sx.assume(sx.Not(sx.And(db[i] >= 65, db[i] <= 90)))  # stored lower-cased
    jar = SimpleCookieJar()
    c1 = http.cookies.SimpleCookie("b=2; a=1")
    jar.jar["." + d] = c1
    doms = [d]
    if two:
        d2 = sx.sym_str("e", 1)
        sx.assume(sx.Not(sx.And(d2.encode()[0] >= 65, d2.encode()[0] <= 90)))
        sx.assume(sx.Not(("." + d2) == ("." + d)))
        jar.jar["." + d2] = http.cookies.SimpleCookie("c=3")
        doms.append(d2)
    got = jar.get(host)
    hlow = host.lower()
    exp_parts = []
    for dom, names in zip(doms, (["a=1", "b=2"], ["c=3"])):
        if len(host) and (hlow == dom or hlow.endswith("." + dom)):
            exp_parts += names
    exp = "; ".join(sorted(exp_parts))
    sx.require(got == exp, "cookies returned exactly for hosts equal to the domain or inside it (label boundary, case-insensitive), name-sorted",
               hl=hl, dl=dl, got=str(got), exp=exp)
    cover("sent" if exp else "not-sent")


NAMES = ("a", "b")
VALUES = ("1", "2")
DOMAINS = ("x.com", "X.Com", ".x.com", "s.x.com", "ax.com", "com", None)
HOSTS = ("x.com", "X.COM", "s.x.com", "ax.com", "x.com.evil", "com", "other.org", "setter.example")


def _norm(domain):
    d = domain.lower()
    return d if d.startswith(".") else "." + d


def _covers(dom, host):
    h = host.lower()
    return h == dom[1:] or h.endswith(dom)


CALLER_COOKIES = ("z=9", "a=1", "=2", "b")


def j_hist(nresp, merged=False, client_cookie=False, redirect=False):
    """nresp responses, each setting 1 cookie (or 2 in merged multi-line form) for one catalogue domain; after every
    response a handshake to every catalogue host checks the Cookie header"""
    quiet_logging()
    import websocket
    import websocket._handshake as HS
    reset_cookie_jar()
    ref = {}  # normalised domain -> {name: value}
    cc = None
    for r in range(nresp):
        dom = DOMAINS[sx.choice("dom%d" % r, len(DOMAINS))]
        name = NAMES[sx.choice("name%d" % r, len(NAMES))]
        val = VALUES[sx.choice("val%d" % r, len(VALUES))]
        cookies = [(name, val)]
        if merged:
            cookies.append(("c", VALUES[sx.choice("val%db" % r, len(VALUES))]))
        lines = []
        for n_, v_ in cookies:
            lines.append("Set-Cookie: %s=%s%s" % (n_, v_, "; Domain=" + dom if dom is not None else ""))

        def respond(server, head, key, lines=lines):
            if redirect and not head.startswith("GET /landed"):
                # the cookie arrives on a redirect response of the handshake; the redirected request gets a plain 101
                return ("HTTP/1.1 302 Found\r\nLocation: ws://setter2.example/landed\r\n%s\r\n\r\n" % "\r\n".join(lines)).encode()
            if redirect:
                return ("HTTP/1.1 101 Switching Protocols\r\nUpgrade: websocket\r\nConnection: Upgrade\r\nSec-WebSocket-Accept: %s\r\n\r\n"
                        % accept_for(key)).encode()
            return ("HTTP/1.1 101 Switching Protocols\r\nUpgrade: websocket\r\nConnection: Upgrade\r\nSec-WebSocket-Accept: %s\r\n%s\r\n\r\n"
                    % (accept_for(key), "\r\n".join(lines))).encode()
        _roundtrip("setter.example", respond, None)
        if dom is not None:
            slot = ref.setdefault(_norm(dom), {})
            for n_, v_ in cookies:
                slot[n_] = v_
        # the caller's cookie: unrelated to the jar / the same pair a jar entry may hold / text that occurs inside a jar entry
        if client_cookie and (r == 0 or client_cookie == "each"):
            cc = CALLER_COOKIES[sx.choice("cc%d" % r, len(CALLER_COOKIES))]
        # probe every host
        for host in HOSTS:
            head = _roundtrip(host, None, cc)
            got = [l for l in head.split("\r\n") if l.lower().startswith("cookie:")]
            parts = []
            for dkey, cs in ref.items():
                if _covers(dkey, host):
                    parts += ["%s=%s" % kv for kv in cs.items()]
            exp_val = "; ".join(sorted(parts) + ([cc] if cc else []))
            exp = ["Cookie: " + exp_val] if exp_val else []
            sx.require(got == exp, "Cookie header is exactly the name-sorted cookies whose domain covers the target (latest value wins) plus the "
                       "caller's cookie; absent when empty", host=host, step=r, got=str(got), exp=str(exp), jar=str(sorted(ref)))
    cover("hist")
    if any(ref.values()):
        cover("stored")


def j_hostopt(target_i, hostopt_i):
    """cookies are chosen for the host actually connected to, not for a custom Host header value"""
    quiet_logging()
    import websocket
    import websocket._handshake as HS
    reset_cookie_jar()
    HS.CookieJar.add("a=1; Domain=x.com")
    HS.CookieJar.add("b=2; Domain=other.org")
    target = ("x.com", "s.x.com", "other.org", "none.example")[target_i]
    hostopt = ("x.com", "other.org", "front.example")[hostopt_i]
    k = Kernel(step_budget=3000)
    net = Net(k, [{}])
    simnet.install(k, net)
    try:
        ws = websocket.create_connection("ws://%s/" % target, timeout=5, host=hostopt)
        ws.shutdown()
    finally:
        k.shutdown()
        simnet.uninstall()
        reset_cookie_jar()
    lines = net.requests[0][2].split("\r\n")
    got = [l for l in lines if l.lower().startswith("cookie:")]
    exp = {"x.com": ["Cookie: a=1"], "s.x.com": ["Cookie: a=1"], "other.org": ["Cookie: b=2"], "none.example": []}[target]
    sx.require("Host: " + hostopt in lines, "Host override sent verbatim")
    sx.require(got == exp, "cookies follow the connection target, whatever the Host header override says", target=target, hostopt=hostopt, got=str(got))
    cover("hostopt")


def j_threads(pre):
    """two handshake responses naming the same domain (different spelling) are processed by two threads at once; every access
    to the jar's store is a preemption point, every scheduling decision a solver choice: afterwards a host inside the domain gets
    the cookies of BOTH responses (and the earlier one).  (Threads are outside the property's quantifier: not required.)"""
    quiet_logging()
    import simnet
    from websocket._cookiejar import SimpleCookieJar
    k = simnet.Kernel(step_budget=4000, explore_sched=True)

    class YDict(dict):
        def get(self, *a):
            k.yield_now()
            return dict.get(self, *a)

        def __getitem__(self, key):
            k.yield_now()
            return dict.__getitem__(self, key)

        def __setitem__(self, key, v):
            k.yield_now()
            dict.__setitem__(self, key, v)

    jar = SimpleCookieJar()
    store = sx.unit(jar, "jar")
    if pre:
        jar.add("sid=1; Domain=example.com")
    jar.jar = YDict(store)
    errs = []

    def run_a():
        try:
            jar.add("beta=B; Domain=example.com")
        except Exception as e:
            errs.append(type(e).__name__)
    try:
        pa = k.spawn(run_a, "A")
        jar.add("alpha=A; Domain=.EXAMPLE.com")
        k.block(lambda: pa.done, None)
        got = jar.get("www.example.com")
    finally:
        k.shutdown()
    sx.require(not errs, "adding cookies from two threads raised %s" % ",".join(errs))
    exp = "alpha=A; beta=B" + ("; sid=1" if pre else "")
    if pre:
        sx.require(got == exp, "cookies set by two responses processed concurrently are both kept (with the domain's earlier cookie)", got=got, exp=exp)
    else:
        # without an earlier entry the unchanged jar itself can lose one of the two FIRST cookies of a domain: not demanded
        sx.require(all(p in exp.split("; ") for p in got.split("; ") if p), "nothing foreign appears", got=got)
    cover("jar-threads")


def _roundtrip(host, respond, cookie):
    """one real create_connection to ws://host/ on the fake network; returns the request head the server saw"""
    import websocket
    k = Kernel(step_budget=3000)
    spec = {"respond": respond} if respond else {}
    net = Net(k, [spec])
    simnet.install(k, net)
    try:
        opts = {"cookie": cookie} if cookie else {}
        ws = websocket.create_connection("ws://%s/" % host, timeout=5, **opts)
        ws.shutdown()
    finally:
        k.shutdown()
        simnet.uninstall()
    return net.requests[0][2]


def obligations(tier):
    thorough = tier == "thorough"
    get = [dict(hl=h, dl=d) for h in range(0, (12 if thorough else 8)) for d in range(0, (9 if thorough else 5))]
    get += [dict(hl=h, dl=d, two=True) for h in (1, 3) for d in (1, 2)]
    hist = [dict(nresp=n) for n in ((1, 2, 3) if thorough else (1, 2))] + [dict(nresp=1, merged=True), dict(nresp=2, merged=True),
                                                                            dict(nresp=1, client_cookie=True), dict(nresp=2, client_cookie="each" if thorough else True),
                                                                            dict(nresp=1, redirect=True), dict(nresp=2, redirect=True)]
    return [
        Obligation("J-get", j_get, get, bounds="host of 0..%d and domain of 0..%d symbolic ASCII characters; one or two stored domains" % (11 if thorough else 7, 8 if thorough else 4),
                   must_cover=["sent", "not-sent"], budget_s=1800, kernel=["SimpleCookieJar.get"]),
        Obligation("J-hostopt", j_hostopt, [dict(target_i=t, hostopt_i=h) for t in range(4) for h in range(3)],
                   bounds="4 targets x 3 values of the host= option with two cookie domains in the jar", must_cover=["hostopt"], step_budget=100000,
                   kernel=["_handshake._get_handshake_headers"]),
        Obligation("J-hist", j_hist, hist, bounds="histories of <=%d responses over names {a,b} x values {1,2} x domains %s (+ merged two-line form, + caller cookie from %s — unrelated / equal to / contained in a stored one, + cookie set by a 302 redirect response of the handshake), "
                   "each followed by handshakes to %s" % (3 if thorough else 2, DOMAINS, CALLER_COOKIES, HOSTS), must_cover=["hist", "stored"], budget_s=2400, step_budget=400000,
                   kernel=["SimpleCookieJar.add", "SimpleCookieJar.get", "_handshake.handshake_response", "_get_handshake_headers", "_http.read_headers (Set-Cookie merge)"]),
        Obligation("J-threads", j_threads, [dict(pre=True)], required=False,
                   bounds="two threads adding a cookie for the same domain (spelled example.com / .EXAMPLE.com) to a jar that already holds one for it; "
                          "every access to the jar's store a preemption point, every scheduling decision a solver choice",
                   outside=["threads are not in the property's quantifier; preemption elsewhere than at the store accesses"],
                   must_cover=["jar-threads"], kernel=["SimpleCookieJar.add", "SimpleCookieJar.get"]),
    ]
