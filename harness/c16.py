"""C16 — keepalive pings detect a silent peer in bounded time and never a responsive one."""
from fractions import Fraction

import bvsym as sx
from bvsym import core
import simnet
from .appcommon import AppRun, close_frame, server_frame
from .common import Obligation, cover, decode_client_frames

PROPERTY = "C16"
EXPLANATION = ("run_forever's argument validation is executed with ping_interval and ping_timeout as solver REALS (unbounded); the "
               "real ping thread (_send_ping), check() and Dispatcher.read run on the virtual-time kernel against a peer that "
               "stops answering (T-silent) or answers every ping after a symbolic latency below the timeout (T-live), with "
               "unrelated data frames arriving at symbolic times, so that every phase between the select loop and the ping thread "
               "inside an ordering class is covered by one query.")
ASSUMPTIONS = simnet.ASSUMPTIONS + ["T-live is also run with every transport write as a preemption point of the lock-step kernel (the reading loop may "
                                    "process an immediate reply before the writer continues)",
                                    "T-silent / T-live: (interval, timeout) pairs on a grid; horizon of a few pings; ties between simultaneous "
                                    "wake-ups are explored in both orders"]


def t_args(t_none, i_kind):
    """validation: refused (WebSocketException, nothing dialled) iff timeout <= 0, interval < 0, or both set and interval <= timeout"""
    from websocket._exceptions import WebSocketException
    if t_none:
        T = None
    else:
        T = sx.sym_real("T")
        sx.assume(sx.And(T >= -5, T <= 50))
    if i_kind == "none":
        I = None
    elif i_kind == "zero":
        I = 0
    else:
        I = sx.sym_real("I")
        sx.assume(sx.And(I >= -5, I <= 50))
    run = AppRun([{}], outcomes={0: "refused"}, step_budget=300)
    refused = False
    try:
        try:
            run.app.run_forever(ping_interval=I, ping_timeout=T)
        except WebSocketException:
            refused = True
    finally:
        run.k.shutdown()
        simnet.uninstall()
    bad_t = False if T is None else (T <= 0)
    bad_i = False if I is None else (I < 0)
    both = (T is not None) and (I is not None)
    incons = sx.And(T != 0, I != 0, I <= T) if both else False
    expect = sx.Or(bad_t, bad_i, incons)
    sx.require(sx.Iff(refused, expect), "settings refused exactly when timeout <= 0, interval < 0, or interval <= timeout (both set)")
    if refused:
        sx.require(len(run.net.socks) == 0 and len(run.net.resolved) == 0, "inconsistent settings are refused before any network activity")
        cover("refused")
    else:
        sx.require(len(run.net.resolved) == 1, "accepted settings proceed to connect")
        cover("accepted")


def _pong_responder(answer_upto, latency, coalesce=False):
    """server answers ping number k (0-based) iff k < answer_upto, after `latency`; coalesce: the pong travels in the same TCP
    segment / TLS record BEHIND a data frame (a server flushing its queue in one write)"""
    st = {"n": 0, "buf": b""}

    def hook(server, data):
        if len(data) >= 2 and (data[0] & 0x0F) == 9:
            k = st["n"]
            st["n"] += 1
            server.net.ping_times.append(server.k.now)
            if k < answer_upto:
                if coalesce == "frag":
                    # the pong travels BETWEEN the two fragments of a data message (control frames may be injected there, RFC 6455 5.4)
                    server.k.after(latency, lambda: server.deliver(server_frame(0, 2, b"q") + server_frame(1, 10, b"") + server_frame(1, 0, b"r")))
                else:
                    server.k.after(latency, lambda: server.deliver((server_frame(1, 2, b"q") if coalesce else b"") + server_frame(1, 10, b"")))
    return hook


def _settings(I, T, ratio):
    """(interval, timeout): concrete grid values, or — I == T == 'sym' — two solver reals with 0 < T <= 10 and T < I <= ratio*T,
    i.e. EVERY accepted pair of settings up to that ratio"""
    if I == "sym":
        Tv = sx.sym_real("T")
        sx.assume(sx.And(Tv > 0, Tv <= 10))
        Iv = sx.sym_real("I")
        sx.assume(sx.And(Iv > Tv, Iv <= ratio * Tv))
        return Iv, Tv
    return Fraction(I), Fraction(T)


def t_silent(I, T, answered, ndata, ratio=4, reenter=False, chatty=None):
    """peer answers the first `answered` pings at once, then never; `ndata` unrelated data frames arrive at symbolic times.
    The ping/pong timeout must be reported no later than (first unanswered ping) + 2T."""
    I, T = _settings(I, T, ratio)
    horizon = (answered + 6) * I
    script, t = [], 0
    for j in range(ndata):
        g = sx.sym_real("g%d" % j)
        sx.assume(sx.And(g > 0, g < horizon / max(1, ndata)))
        script.append((g, server_frame(1, 2, b"d")))
    if chatty:
        # the peer never answers pings but keeps SENDING: a data frame every chatty*T (< T) from a symbolic phase on, for the whole run
        # ("whatever the timing of other traffic"): the select call of the loop never times out
        delta = Fraction(chatty) * T
        horizon = (answered + 2) * I + 3 * T  # (the first ping leaves two intervals after the connection is up)
        g0 = sx.sym_real("g0")
        sx.assume(sx.And(g0 > 0, g0 <= delta))
        script.append((g0, server_frame(1, 2, b"c")))
        for _ in range(int(horizon / delta) + 2):
            script.append((delta, server_frame(1, 2, b"c")))
    spec = {"script": script, "on_frame_bytes": _pong_responder(answered, 0)}
    hooks = {}
    if reenter:
        # while the connection is up the application calls run_forever() AGAIN on the same object with other (acceptable) settings;
        # the call is refused ("socket is already opened") and must leave the running connection's keepalive as it is
        def again(run):
            import websocket
            try:
                run.app.run_forever(ping_interval=I * 50, ping_timeout=T * 40, ping_payload="other")
                sx.require(False, "a second run_forever() on a connected app was not refused")
            except websocket.WebSocketException:
                pass
        hooks["on_open"] = again
    run = AppRun([spec], step_budget=4000, hooks=hooks)
    run.net.ping_times = []
    run.k.at(run.k.t0 + horizon, lambda: [s.deliver(close_frame(1000)) for s in run.net.socks if not s.closed])
    try:
        run.run(ping_interval=I, ping_timeout=T)
    except simnet.KernelStuck:
        sx.require(False, "run blocked forever")
        return
    from websocket._exceptions import WebSocketTimeoutException
    touts = [t for t in run.of("on_error") if isinstance(t[2][0], WebSocketTimeoutException)]
    pings = run.net.ping_times
    sx.require(len(pings) > answered, "pings keep being sent while the connection is up", n=len(pings), I=str(I), T=str(T))
    if len(pings) <= answered:
        return
    first_unanswered = pings[answered]
    sx.require(len(touts) == 1, "a peer that stops answering is reported as a ping/pong timeout", I=str(I), T=str(T), answered=answered,
               got=len(touts))
    if len(touts) == 1:
        sx.require(touts[0][1] <= first_unanswered + 2 * T,
                   "the timeout is reported no later than two timeouts after the first unanswered ping", I=str(I), T=str(T), answered=answered)
    after = [p for p in pings if touts and bool(p > touts[0][1])]
    sx.require(len(after) == 0, "no ping is sent after the connection ended", I=str(I), T=str(T))
    cover("silent")


def t_silent_ext(I, T, answered):
    """the same with an EXTERNAL (rel-style) dispatcher: run_forever(dispatcher=...) registers the reader and ONE check timer with
    the external loop, which re-arms a timer whose callback returns a true value"""
    from .c15 import FakeRel
    I, T = Fraction(I), Fraction(T)
    horizon = (answered + 6) * I
    spec = {"script": [], "on_frame_bytes": _pong_responder(answered, 0)}
    run = AppRun([spec], step_budget=4000)
    run.net.ping_times = []
    run.k.at(run.k.t0 + horizon, lambda: [s.deliver(close_frame(1000)) for s in run.net.socks if not s.closed])
    rel = FakeRel(run.k)
    raised = []
    try:
        try:
            run.app.run_forever(dispatcher=rel, ping_interval=I, ping_timeout=T)
            rel.dispatch(run.k.t0 + horizon + 10)
        except simnet.KernelStuck:
            sx.require(False, "external dispatcher loop blocked forever")
            return
        except (sx.Control, sx.ConcreteFailure, sx.ReplayMismatch):
            raise
        except simnet.KernelBudget:
            sx.require(False, "external-dispatcher run does not come to an end")
            return
        except Exception as e:
            # with an external loop the library's check() runs as that loop's timer callback and RAISES WebSocketTimeoutException into
            # it: the exception leaving the external loop is the report (the property does not say through which channel)
            from websocket._exceptions import WebSocketTimeoutException as _WTE
            if isinstance(e, _WTE):
                raised.append(("raised", run.k.now, (e,)))
            else:
                sx.require(False, "external-dispatcher run raised %s" % type(e).__name__)
                return
    finally:
        run.alive = [t.is_alive() for t in run.k.live_threads]
        run.k.shutdown()
        simnet.uninstall()
    from websocket._exceptions import WebSocketTimeoutException
    touts = [t for t in run.of("on_error") if isinstance(t[2][0], WebSocketTimeoutException)] + raised
    pings = run.net.ping_times
    sx.require(len(pings) > answered, "pings keep being sent while the connection is up (external dispatcher)", n=len(pings), I=str(I), T=str(T))
    if len(pings) <= answered:
        return
    first_unanswered = pings[answered]
    sx.require(len(touts) == 1, "a peer that stops answering is reported as a ping/pong timeout (external dispatcher)", I=str(I), T=str(T),
               answered=answered, got=len(touts))
    if len(touts) == 1:
        sx.require(touts[0][1] <= first_unanswered + 2 * T,
                   "the timeout is reported no later than two timeouts after the first unanswered ping (external dispatcher)", I=str(I), T=str(T),
                   answered=answered)
    cover("silent-ext")


def t_live(I, T, ndata, payload="hb", yield_on_send=False, ratio=4, tls=False, coalesce=False):
    """peer answers every ping after a symbolic latency in [0, T); data frames at symbolic times: never a timeout"""
    I, T = _settings(I, T, ratio)
    lat = sx.sym_real("lat")
    sx.assume(sx.And(lat >= 0, lat < T))
    npings = 3
    horizon = (npings + 1) * I + I / 2
    script = []
    for j in range(ndata):
        g = sx.sym_real("g%d" % j)
        sx.assume(sx.And(g > 0, g < horizon / max(1, ndata)))
        script.append((g, server_frame(1, 2, b"d")))
    spec = {"script": script, "on_frame_bytes": _pong_responder(10 ** 6, lat, coalesce)}
    run = AppRun([spec], step_budget=4000, tls=tls, url="wss://h.example/x" if tls else "ws://h.example/x")
    run.net.ping_times = []
    run.net.yield_on_send = yield_on_send
    run.k.at(run.k.t0 + horizon, lambda: [s.deliver(close_frame(1000)) for s in run.net.socks if not s.closed])
    try:
        run.run(ping_interval=I, ping_timeout=T, ping_payload=payload)
    except simnet.KernelStuck:
        sx.require(False, "run blocked forever")
        return
    from websocket._exceptions import WebSocketTimeoutException
    touts = [t for t in run.of("on_error") if isinstance(t[2][0], WebSocketTimeoutException)]
    sx.require(len(touts) == 0, "a peer that answers every ping within the timeout is never reported", I=str(I), T=str(T))
    sx.require(len(run.of("on_error")) == 0, "no error at all on a healthy connection", I=str(I), T=str(T))
    pings = run.net.ping_times
    sx.require(len(pings) == npings, "pings are sent periodically while the connection is up", got=len(pings), exp=npings, I=str(I), T=str(T))
    for a, b in zip(pings, pings[1:]):
        sx.require(b - a == I, "consecutive pings are one interval apart")
    wire = b""
    for (_, _, d) in run.net.client_frames:
        wire = wire + d
    frames = [f for f in decode_client_frames(wire) if f[0] != "TRUNCATED" and f[2] == 9]
    sx.require(all(f[4] == payload.encode() for f in frames), "pings carry the configured payload")
    sx.require(not any(run.alive), "ping thread stops when the connection ends")
    cover("live")


def t_reconnect(I, T, lost):
    """ping thread per connection: after a loss and a reconnect exactly one thread pings the new connection, one interval apart"""
    I, T = Fraction(I), Fraction(T)
    first = {"script": [(1, "EOF" if lost == "eof" else "RESET")], "on_frame_bytes": _pong_responder(10 ** 6, 0)}
    second = {"script": [], "on_frame_bytes": _pong_responder(10 ** 6, 0)}
    run = AppRun([first, second], step_budget=6000)
    run.net.ping_times = []
    peak = {"threads": 0}

    def watch(_n):
        peak["threads"] = max(peak["threads"], sum(1 for t in run.k.live_threads if t.is_alive()))
    run.k.on_yield = watch
    horizon = 2 + 5 * I
    run.k.at(run.k.t0 + horizon, lambda: [s.deliver(close_frame(1000)) for s in run.net.socks if not s.closed])
    try:
        run.run(ping_interval=I, ping_timeout=T, reconnect=1)
    except simnet.KernelStuck:
        sx.require(False, "run blocked forever")
        return
    pings = run.net.ping_times
    sx.require(len(pings) >= 2, "pings are sent on the re-established connection", got=len(pings), I=str(I))
    for a, b in zip(pings, pings[1:]):
        sx.require(b - a == I, "pings on the re-established connection are exactly one interval apart (one ping thread)", I=str(I), T=str(T),
                   gap=str(b - a))
    sx.require(peak["threads"] <= 1, "the ping thread of a lost connection is stopped before the next one starts", got=peak["threads"])
    sx.require(not any(run.alive), "no ping thread survives the run")
    cover("reconnect-ping")


GRID_T = (1, 2, 5)
GRID_R = ("11/10", "3/2", "2", "5/2", "4")


def obligations(tier):
    thorough = tier == "thorough"
    pairs = [(str(Fraction(r) * t), str(t)) for t in GRID_T for r in GRID_R]
    silent = [dict(I=i, T=t, answered=a, ndata=n) for (i, t) in pairs for a in ((0, 1, 2) if thorough else (0, 1)) for n in ((0, 1, 2) if thorough else (0, 1))]
    live = [dict(I=i, T=t, ndata=n) for (i, t) in pairs for n in ((0, 1, 2) if thorough else (0, 1))]
    # the same with every transport write a preemption point (the reader may handle an immediate pong before the ping thread continues)
    live += [dict(I=i, T=t, ndata=n, yield_on_send=True) for (i, t) in pairs for n in ((0, 1) if thorough else (0,))]
    # TLS transport (SSLDispatcher), and pongs that arrive in one segment / record behind a data frame
    for (i, t) in (pairs if thorough else pairs[::4]):
        live += [dict(I=i, T=t, ndata=(1 if thorough else 0), tls=tl, coalesce=co) for tl in (False, True) for co in (False, True) if tl or co]
        live += [dict(I=i, T=t, ndata=0, tls=tl, coalesce="frag") for tl in (False, True)]  # pong between the fragments of a message (round 8)
    silent += [dict(I=i, T=t, answered=1, ndata=0, reenter=True) for (i, t) in pairs[::5]]
    # a peer that never answers pings but keeps sending data frames more often than once per timeout (round 7)
    silent += [dict(I=i, T=t, answered=a, ndata=0, chatty=c) for (i, t) in (pairs if thorough else pairs[1::3]) for a in (0, 1) for c in ("1/2", "9/10")]
    ext = [dict(I=i, T=t, answered=a) for (i, t) in (pairs if thorough else pairs[::2]) for a in (0, 1, 2)]
    R = 6 if thorough else 4
    silent_sym = [dict(I="sym", T="sym", answered=a, ndata=n, ratio=R) for a in (0, 1) for n in (0, 1)]
    live_sym = [dict(I="sym", T="sym", ndata=n, ratio=R) for n in ((0, 1) if thorough else (0,))] + [dict(I="sym", T="sym", ndata=0, ratio=R, yield_on_send=True)]
    return [
        Obligation("T-silent-sym", t_silent, silent_sym,
                   bounds="EVERY accepted pair of settings with 0 < timeout <= 10 and timeout < interval <= %d*timeout (both solver reals); peer answers the "
                          "first 0..1 pings then never; 0..1 data frames at symbolic times" % R, must_cover=["silent"], budget_s=2400, step_budget=400000,
                   kernel=["WebSocketApp._send_ping", "check", "Dispatcher.read"]),
        Obligation("T-live-sym", t_live, live_sym,
                   bounds="EVERY accepted pair as in T-silent-sym; every ping answered after a latency that is a solver real in [0, timeout); with and without "
                          "write preemption", must_cover=["live"], budget_s=2400, step_budget=400000, kernel=["WebSocketApp._send_ping", "check", "read (pong branch)"]),
        Obligation("T-reconnect", t_reconnect, [dict(I=i, T=t, lost=l) for (i, t) in (("3", "1"), ("4", "3"), ("10", "2")) for l in ("eof", "reset")],
                   bounds="3 setting pairs; first connection lost by end of stream / reset after 1 s, reconnect interval 1, then 5 intervals of a healthy connection",
                   must_cover=["reconnect-ping"], step_budget=400000, kernel=["WebSocketApp._start_ping_thread", "_stop_ping_thread", "handleDisconnect", "_send_ping"]),
        Obligation("T-args", t_args, [dict(t_none=tn, i_kind=ik) for tn in (False, True) for ik in ("sym", "none", "zero")],
                   bounds="ping_interval and ping_timeout arbitrary reals in [-5, 50] (also None / 0): unbounded density, one query per branch",
                   must_cover=["refused", "accepted"], kernel=["WebSocketApp.run_forever (argument validation)"]),
        Obligation("T-silent", t_silent, silent,
                   bounds="15 grid pairs (T in {1,2,5}, I/T in {1.1,1.5,2,2.5,4}); peer answers the first 0..%d pings then never; 0..%d unrelated data frames at "
                          "symbolic times (solver reals), or a data frame every T/2 / 0.9 T for the whole run from a symbolic phase on; horizon 6 intervals after the first unanswered ping; also with a second (refused) run_forever() call "
                          "with other settings made from on_open" % (2 if thorough else 1, 2 if thorough else 1),
                   must_cover=["silent"], budget_s=2400, step_budget=200000, kernel=["WebSocketApp._send_ping", "check", "Dispatcher.read", "_start_ping_thread", "_stop_ping_thread"]),
        Obligation("T-silent-ext", t_silent_ext, ext,
                   bounds="grid pairs; external rel-style dispatcher (reader + one re-arming check timer); peer answers the first 0..2 pings then never",
                   must_cover=["silent-ext"], step_budget=200000, kernel=["WebSocketApp.run_forever (dispatcher=...)", "WrappedDispatcher.read / timeout", "check", "_send_ping"]),
        Obligation("T-live", t_live, live, bounds="15 grid pairs; every ping answered after a latency that is a solver real in [0,T); 0..%d data frames at symbolic "
                   "times; 3 pings; plain and TLS transport, pong alone, behind a data frame in the same segment / record, or between the two fragments of a data message" % (2 if thorough else 1), must_cover=["live"], budget_s=2400, step_budget=200000,
                   kernel=["WebSocketApp._send_ping", "check", "read (pong branch)", "Dispatcher.read", "SSLDispatcher.read", "SSLDispatcher.select"]),
    ]
