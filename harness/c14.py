"""C14 — run_forever always terminates; on_close fires once, last, with the close reason."""
import itertools
from fractions import Fraction

import bvsym as sx
from bvsym import core
import simnet
from .appcommon import AppRun, close_frame, server_frame
from .common import Obligation, cover, decode_client_frames

PROPERTY = "C14"
EXPLANATION = ("The real run_forever (teardown, read, closed, handleDisconnect, _get_close_args, close, _stop_ping_thread) runs on "
               "the virtual-time kernel for every way of ending a run — server close frame without body / with a symbolic 16-bit "
               "code / with code and symbolic reason, end of stream, reset, protocol violation, ill-formed text, ping timeout, "
               "refused connection, rejected handshake, close() from each callback, close() from a second lock-step thread "
               "released at a symbolic kernel yield point, KeyboardInterrupt in a callback — preceded by traffic and followed by a "
               "second run on the same object; termination is witnessed by the kernel's step budget.")
ASSUMPTIONS = simnet.ASSUMPTIONS + [
    "the second thread calling close() is scheduled at environment interactions of the loop (select, recv, wait, sleep, join), "
    "not between arbitrary bytecodes",
    "'error reported' = the loop reported a connection-level error to on_error; exceptions raised by user callbacks do not count "
    "for the return value",
]

ENDINGS = ("reconnect-then-close", "reply-fails-then-reconnect", "close0", "close2", "close-reason", "eof", "reset", "proto", "badutf8", "pingtimeout", "pingtimeout-chatty", "refused", "rejected",
           "close-in-open", "close-in-message", "close-in-ping", "close-in-data", "kbd-in-message", "kbd-in-close")


def _traffic(n, tag=""):
    out = []
    for i in range(n):
        out.append((1, server_frame(1, 2, sx.sym_bytes("t%s%d" % (tag, i), 1))))
    return out


CHATTER = 40


def _spec_for(ending, ntraffic, tag=""):
    """server spec, run_forever kwargs, hooks, connect outcomes, expected (close args, error reported)"""
    script = _traffic(ntraffic, tag)
    rf, hooks, outcomes, raise_in, raise_exc = {}, {}, {}, None, None
    spec = {"script": script}
    exp_args, exp_err = (None, None), True
    if ending == "reconnect-then-close":
        # first connection is lost, the app reconnects (reconnect=2) with a ping thread per connection, the second one is closed by the server
        script.append((1, "EOF"))
        rf = dict(reconnect=2, ping_interval=10, ping_timeout=3)
        exp_err = True
        spec["next"] = {"script": [(1, server_frame(1, 2, b"n")), (1, close_frame())]}
    elif ending == "reply-fails-then-reconnect":
        # the server closes; the client's automatic close reply cannot be written (send timeout); with reconnect set the app connects
        # again; the second connection is closed by the server.  Every transport created must be closed when run_forever returns.
        script.append((1, close_frame()))
        spec["send_fault"] = {0: "timeout"}
        rf = dict(reconnect=2)
        exp_err = True
        spec["next"] = {"script": [(1, server_frame(1, 2, b"n")), (1, close_frame())]}
    elif ending == "close0":
        script.append((1, close_frame()))
        exp_err = False
    elif ending == "close2":
        code = sx.sym_int("code" + tag, 16)
        sx.assume(sx.Or(sx.And(code >= 1000, code <= 1003), sx.And(code >= 1007, code <= 1011), sx.And(code >= 3000, code <= 4999)))
        script.append((1, close_frame(code)))
        exp_args, exp_err = (code, ""), False
    elif ending == "close-reason":
        code = sx.sym_int("code" + tag, 16)
        sx.assume(sx.And(code >= 3000, code <= 4999))
        reason = sx.sym_bytes("reason" + tag, 2)
        sx.assume(sx.And(reason[0] < 128, reason[1] < 128))
        script.append((1, close_frame(code, reason)))
        exp_args, exp_err = (code, sx.text_of(reason)), False
    elif ending == "eof":
        script.append((1, "EOF"))
    elif ending == "reset":
        script.append((1, "RESET"))
    elif ending == "proto":
        script.append((1, server_frame(1, 3, b"")))  # unassigned opcode
    elif ending == "badutf8":
        script.append((1, server_frame(1, 1, b"\xff")))
    elif ending == "pingtimeout":
        rf = dict(ping_interval=5, ping_timeout=2)
    elif ending == "pingtimeout-chatty":
        # the peer never answers a ping but keeps sending: a server ping every second for CHATTER seconds, so the loop's select never
        # times out.  The run must end through the ping timeout WHILE the peer is still talking (against an endless talker it would
        # otherwise never end): see _check_run's caller
        rf = dict(ping_interval=5, ping_timeout=2)
        for _ in range(CHATTER):
            script.append((1, server_frame(1, 9, b"")))
    elif ending == "refused":
        outcomes = {0: "refused"}
    elif ending == "rejected":
        spec["reject"] = True
    elif ending.startswith("close-in-"):
        where = {"open": "on_open", "message": "on_message", "ping": "on_ping", "data": "on_data"}[ending[9:]]
        hooks = {where: lambda run, *a: run.app.close()}
        script.append((1, server_frame(1, 9, b"p")))
        script.append((1, server_frame(1, 2, b"m")))
        script.append((1, "EOF"))
        exp_err = False
        # the server answers the client's close frame
        spec["on_frame_bytes"] = _answer_close
    elif ending == "kbd-in-close":
        # the server closes with a code; the application's on_close callback itself is interrupted (KeyboardInterrupt)
        code = sx.sym_int("code" + tag, 16)
        sx.assume(sx.And(code >= 3000, code <= 4999))
        script.append((1, close_frame(code)))
        raise_in, raise_exc = ("on_close", 0), KeyboardInterrupt()
        exp_args, exp_err = (code, ""), None
    elif ending == "kbd-in-message":
        script.append((1, server_frame(1, 2, b"m")))
        script.append((1, "EOF"))
        raise_in, raise_exc = ("on_message", ntraffic), KeyboardInterrupt()
        exp_err = None  # don't care
    return spec, rf, hooks, outcomes, raise_in, raise_exc, exp_args, exp_err


def _answer_close(server, data):
    if len(data) >= 2 and (data[0] & 0x0F) == 8:
        server.k.after(1, lambda: server.deliver(close_frame(1000)))
    _answer_ping(server, data)


def _answer_ping(server, data):
    if len(data) >= 2 and (data[0] & 0x0F) == 9:
        server.k.after(0, lambda: server.deliver(server_frame(1, 10, b"")))


def _check_run(run, exp_args, exp_err, what):
    sx.require(run.exc is None or isinstance(run.exc, KeyboardInterrupt), "run_forever raised %s" % type(run.exc).__name__, what=what)
    names = run.names()
    ncl = names.count("on_close")
    sx.require(ncl == 1, "on_close is called exactly once", got=ncl, what=what)
    if ncl:
        if what == "kbd-in-close":
            # the interrupt raised BY on_close is reported (on_error) after it - it cannot come before; nothing else may follow
            tail = names[names.index("on_close") + 1:]
            sx.require(all(n == "on_error" for n in tail) and len(tail) <= 1, "after on_close only the report of on_close's own failure may follow",
                       what=what, tail=str(tail))
        else:
            sx.require(names[-1] == "on_close", "on_close is the last callback", what=what, last=names[-1])
        got = run.of("on_close")[0][2]
        sx.require(sx.And(_eq(got[0], exp_args[0]), _eq(got[1], exp_args[1])),
                   "on_close receives the status code and reason of the server's close frame (None, None otherwise)", what=what)
    sx.require(all(s.closed for s in run.net.socks), "every transport is closed when run_forever returns", what=what)
    sx.require(not any(run.alive), "the ping thread has ended when run_forever returns", what=what)
    sx.require(run.app.sock is None, "the app holds no socket after the run", what=what)
    if exp_err is not None:
        sx.require(bool(run.ret) == exp_err,
                   "return value is True exactly when a connection-level error was reported (False for a close frame or the application's own close())",
                   what=what, got=str(run.ret))
        errs = [t for t in run.of("on_error")]
        if exp_err:
            sx.require(len(errs) >= 1, "an abnormal end is reported to on_error", what=what)
        else:
            sx.require(len(errs) == 0, "a run ended by a close frame or by close() reports no error", what=what, n=len(errs))


def _eq(a, b):
    if a is None or b is None:
        return a is None and b is None
    return a == b


def t_end(ending, ntraffic, second=None, tls=False, ping=False):
    spec, rf, hooks, outcomes, raise_in, raise_exc, exp_args, exp_err = _spec_for(ending, ntraffic)
    if ping and "ping_interval" not in rf:
        # a healthy keepalive runs next to the scenario (the server answers every ping): one more thread to stop at the end
        rf = dict(rf, ping_interval=Fraction(3, 2), ping_timeout=1)
        if "on_frame_bytes" not in spec:
            spec["on_frame_bytes"] = _answer_ping
    specs = [spec]
    if "next" in spec:
        specs.append(spec.pop("next"))
    if second is not None:
        spec2, rf2, hooks2, outcomes2, ri2, re2, exp_args2, exp_err2 = _spec_for(second, 1, tag="b")
        specs.append(spec2)
    run = AppRun(specs, url="wss://h.example/x" if tls else "ws://h.example/x", outcomes=outcomes, raise_in=raise_in,
                 raise_exc=raise_exc, hooks=hooks, tls=tls, step_budget=800)
    try:
        run.run(**rf)
    except simnet.KernelStuck as e:
        sx.require(False, "run_forever never returns (blocked forever)", what=ending)
        return
    _check_run(run, exp_args, exp_err, ending)
    if ending == "pingtimeout-chatty":
        cl = run.of("on_close")
        sx.require(len(cl) == 1 and bool(cl[0][1] < run.k.t0 + ntraffic + CHATTER - 5),
                   "a peer that never answers pings but keeps sending does not keep the run alive: it ends through the ping timeout while the "
                   "peer is still talking", ended=str(cl[0][1] - run.k.t0) if cl else None)
    cover("end-" + ending)
    if second is None:
        return
    # ---- second run on the same object
    import websocket
    k2 = simnet.Kernel(step_budget=800)
    net2 = simnet.Net(k2, [spec2], {0: "refused"} if second == "refused" else None, tls=tls)
    simnet.install(k2, net2, tls=tls)
    run2 = run
    first_len = len(run.trace)
    run.k, run.net = k2, net2
    run.hooks = hooks2
    run.raise_in = None
    run.exc, run.ret = None, None
    try:
        try:
            run.ret = run.app.run_forever(**rf2)
        except (sx.Control, sx.ConcreteFailure, sx.ReplayMismatch):
            raise
        except simnet.KernelStuck:
            sx.require(False, "second run_forever never returns", what=second)
            return
        except BaseException as e:  # noqa
            run.exc = e
    finally:
        run.alive = [t.is_alive() for t in k2.live_threads]
        k2.shutdown()
        simnet.uninstall()
    run.trace = run.trace[first_len:]
    _check_run(run, exp_args2, exp_err2, "second run (%s after %s)" % (second, ending))
    if second not in ("refused", "rejected"):
        sx.require(run.names()[0] == "on_open", "the second run opens a fresh connection", first=ending, second=second)
    cover("second")


def t_preempt(ending, answer, ping, nyields=14):
    """app.close() called from a second thread that is released at the idx-th yield of the loop (idx symbolic)"""
    idx = sx.choice("yield", nyields)
    script = [(1, server_frame(1, 2, b"a")), (2, server_frame(1, 9, b"p")), (2, server_frame(1, 2, b"b"))]
    exp_args, exp_err = (None, None), False
    if ending == "eof":
        script.append((3, "EOF"))
    elif ending == "close":
        script.append((3, close_frame(1000)))
    if ending == "none":
        script.append((40, "EOF"))  # only reached when the closer thread was never released
    spec = {"script": script}
    spec["on_frame_bytes"] = _answer_close if answer else _answer_ping
    run = AppRun([spec], step_budget=1500)
    state = {"closed_at": None}

    def closer():
        run.k.block(lambda: run.k.yields >= idx + 1, None)
        state["closed_at"] = len(run.trace)
        state["closed_time"] = run.k.now
        run.app.close()

    run.k.spawn(closer, "closer")
    try:
        run.run(**(dict(ping_interval=4, ping_timeout=3) if ping else {}))
    except simnet.KernelStuck:
        sx.require(False, "run_forever never returns after close() from another thread", idx=idx, ending=ending)
        return
    if state["closed_at"] is None:
        cover("closer-never-ran")
        return
    names = run.names()
    what = "close() from a second thread at yield %d" % idx
    sx.require(run.exc is None, "run_forever raised %s" % type(run.exc).__name__, what=what)
    sx.require(names.count("on_close") == 1, "on_close is called exactly once", got=names.count("on_close"), what=what)
    if names.count("on_close") == 1:
        sx.require(names[-1] == "on_close", "on_close is the last callback", what=what, last=names[-1])
    sx.require(all(s.closed for s in run.net.socks), "every transport is closed when run_forever returns", what=what)
    sx.require(not any(run.alive), "the ping thread has ended when run_forever returns", what=what)
    # the run was ended by the application's own close(): unless the connection had already been lost before, no error
    natural_end = any(t[0] == "on_error" for t in run.trace[: state["closed_at"]])
    fallback = ending == "none" and bool(state["closed_time"] >= run.k.t0 + 45)  # the script's own end of stream (t0+45) came first
    if not natural_end and ending != "eof" and not fallback:
        sx.require(not run.ret, "a run ended by the application's own close() returns False", what=what, got=str(run.ret),
                   ending=ending, answer=answer)
    cover("preempt")


def obligations(tier):
    thorough = tier == "thorough"
    ends = []
    for e in ENDINGS:
        for n in ((0, 1, 2, 3) if thorough else (0, 1, 2)):
            ends.append(dict(ending=e, ntraffic=n))
        ends.append(dict(ending=e, ntraffic=1, tls=True))
        if e not in ("pingtimeout", "pingtimeout-chatty", "reconnect-then-close", "reply-fails-then-reconnect"):
            ends.append(dict(ending=e, ntraffic=2, ping=True))
            if thorough:
                ends.append(dict(ending=e, ntraffic=3, ping=True, tls=True))
    if thorough:
        seconds = [dict(ending=e, ntraffic=n, second=s) for e in ENDINGS if e not in ("kbd-in-message", "reconnect-then-close", "reply-fails-then-reconnect", "pingtimeout-chatty") for n in (0, 1)
                   for s in ENDINGS if s not in ("kbd-in-message", "reconnect-then-close", "reply-fails-then-reconnect", "pingtimeout-chatty")]
    else:
        seconds = [dict(ending=e, ntraffic=0, second=s) for e in ("close0", "eof", "proto", "refused", "close-in-message", "pingtimeout", "rejected")
                   for s in ("close0", "eof", "close2") if s != "close2" or e in ("eof", "close0")]
        # the second run needs its own working keepalive: a silent peer is noticed through the ping timeout
        seconds += [dict(ending=e, ntraffic=0, second="pingtimeout") for e in ("close0", "eof", "pingtimeout", "refused", "proto", "close-in-message")]
    pre = [dict(ending=e, answer=a, ping=p, nyields=24 if thorough else 14) for e in ("none", "eof", "close") for a in (True, False) for p in (False, True)]
    return [
        Obligation("T-end", t_end, ends, bounds="every ending kind %s after 0..%d data frames, plain and TLS; close code symbolic over all wire-legal "
                   "codes, reason 2 symbolic ASCII bytes" % (list(ENDINGS), 3 if thorough else 2),
                   must_cover=["end-" + e for e in ENDINGS], budget_s=1800, step_budget=60000,
                   kernel=["WebSocketApp.run_forever", "teardown", "read", "closed", "handleDisconnect", "_get_close_args", "WebSocketApp.close",
                           "_stop_ping_thread", "Dispatcher.read", "WebSocket.close"]),
        Obligation("T-second", t_end, seconds, bounds="a second run_forever on the same object: 7 first endings x {close frame, end of stream, close with code} and 6 x {ping timeout against a silent peer} (thorough: every pair of 14 ending kinds)", must_cover=["second"],
                   budget_s=1800, step_budget=60000, kernel=["WebSocketApp.run_forever"]),
        Obligation("T-preempt", t_preempt, pre, bounds="close() from a second lock-step thread released at every one of the first 14 (thorough: 24) yield points "
                   "of the loop (symbolic index); server answering the close frame or silent; with and without a ping thread",
                   must_cover=["preempt"], budget_s=1800, step_budget=60000, kernel=["WebSocketApp.close", "WebSocket.close", "teardown", "read"]),
    ]
