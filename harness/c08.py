"""C08 — closing handshake and connection state follow one consistent state machine."""
import socket as _socket

import bvsym as sx
from bvsym import core
from .envpatch import EnvPatch
from .common import FakeSock, KeySource, Obligation, cover, decode_client_frames, new_ws, quiet_logging, server_frame

PROPERTY = "C08"
EXPLANATION = ("WebSocket.close/send_close/shutdown/send/ping/recv with the receive loop's close branch executed over "
               "HISTORIES: a symbolic sequence of client calls against a symbolic script of server events (data, ping, "
               "close with/without body, end of stream, reset, silence), with the close status a symbolic integer in "
               "[-2, 70001] and the reason symbolic bytes; plus close(timeout=t) against silent, answering and chatty "
               "servers in virtual time with t and the server delays as solver reals.")
ASSUMPTIONS = ["virtual clock: time.time() in websocket._core and the transport's timeout share one clock; a transport read "
               "that times out takes exactly the socket timeout",
               "close(timeout) bound: 'within its timeout' is read as 'within one further read timeout of it' (2t) for "
               "servers that send whole frames; a server drip-feeding single bytes of an endless frame is outside the claim"]

CALLS = ("send", "recv", "ping", "close", "send_close", "shutdown")
EVENTS = ("text", "ping", "close0", "close2", "eof", "silence")


class Clock:
    def __init__(self):
        self.now = 1000

    def time(self):
        return self.now

    def sleep(self, s):
        self.now = self.now + s


class TSock(FakeSock):
    """FakeSock with virtual-time waits: incoming items may be ("wait", d) — silence for d seconds before what follows —
    or ("silence",) = forever, or ("chatty", delta, frame) = that frame every delta seconds forever"""

    def __init__(self, clock, incoming=()):
        FakeSock.__init__(self, incoming)
        self.clock = clock
        self.partial = None

    def recv(self, n):
        if self.closed:
            raise AssertionError("recv on closed transport")
        while self.incoming and isinstance(self.incoming[0], tuple):
            it = self.incoming[0]
            if it[0] == "silence":
                sx.tick()
                self.log.append(("recv", n))
                if self.timeout is None:
                    sx.require(False, "blocking read with no timeout on a silent peer (call never returns)")
                    raise sx.Stop()
                self.clock.now = self.clock.now + self.timeout
                raise _socket.timeout("timed out")
            if it[0] == "wait":
                d = it[1]
                if self.timeout is not None and d > self.timeout:
                    sx.tick()
                    self.log.append(("recv", n))
                    self.clock.now = self.clock.now + self.timeout
                    self.incoming[0] = ("wait", d - self.timeout)
                    raise _socket.timeout("timed out")
                self.clock.now = self.clock.now + d
                self.incoming.pop(0)
                continue
            if it[0] == "chatty":
                self.chatty = getattr(self, "chatty", 0) + 1
                if self.chatty > 60:
                    # the caller keeps reading an endless stream: give up (the elapsed virtual time then exposes the overrun)
                    raise ConnectionResetError(104, "test server gave up after 60 frames")
                # expand one period
                self.incoming.insert(0, it[2])
                self.incoming.insert(0, ("wait", it[1]))
                continue
            raise AssertionError(it)
        return FakeSock.recv(self, n)


def _excs():
    from websocket._exceptions import (WebSocketConnectionClosedException, WebSocketPayloadException,
                                       WebSocketProtocolException, WebSocketTimeoutException)
    return WebSocketProtocolException, WebSocketPayloadException, WebSocketConnectionClosedException, WebSocketTimeoutException


def _install_clock(clock):
    ep = EnvPatch()
    ep.clock(clock.time, clock.sleep)
    return ep, None


def h_hist(calls, events, nonblocking=False):
    """calls: list of client call names; events: list of server event names.  Symbolic: close status, reason,
    payload bytes.  Checks clauses (a)-(c) of the property over the whole history."""
    quiet_logging()
    Proto, Payload, Closed, Timed = _excs()
    clock = Clock()
    C, real_time = _install_clock(clock)
    try:
        _h_hist(calls, events, clock, nonblocking)
    finally:
        C.restore()


def _h_hist(calls, events, clock, nonblocking=False):
    Proto, Payload, Closed, Timed = _excs()
    inc = []
    for i, ev in enumerate(events):
        if ev == "text":
            inc.append(server_frame(1, 2, sx.sym_bytes("d%d" % i, 1)))
        elif ev == "ping":
            inc.append(server_frame(1, 9, sx.sym_bytes("d%d" % i, 1)))
        elif ev == "close0":
            inc.append(server_frame(1, 8, b""))
        elif ev == "close2":
            inc.append(server_frame(1, 8, b"\x03\xe9"))
        elif ev == "eof":
            inc.append("eof")
        elif ev == "reset":
            inc.append("reset")
        elif ev == "silence":
            inc.append(("silence",))
    if not inc or inc[-1] not in ("eof", "reset", ("silence",)):
        inc.append(("silence",))
    sock = TSock(clock, inc)
    sock.timeout = 0 if nonblocking else 5  # non-blocking: a select-driven application (socket timeout 0); end of stream is still a loss
    ws = new_ws(sock, get_mask_key=KeySource([bytes(4)] * 32))
    ws.settimeout(0 if nonblocking else 5)
    released = False  # reference: the connection was closed by close()/shutdown() or observed lost
    why = None
    closes_expected = []  # (origin, payload) of the close frames the client is expected to have written, in order
    for ci, call in enumerate(calls):
        before_log = len(sock.log)
        before_sent = len(sock.sent)
        outcome = None
        try:
            if call == "send":
                ws.send(sx.sym_bytes("s%d" % ci, 1), 2)
                outcome = "ok"
            elif call == "ping":
                ws.ping(b"p")
                outcome = "ok"
            elif call == "recv":
                r = ws.recv_data(True)
                outcome = "ok"
                if r[0] == 8:
                    outcome = "got-close"
            elif call in ("close", "send_close"):
                raw = sx.sym_int("st%d" % ci, 17)
                sx.assume(raw <= 70003)
                status = raw - 2  # -2 .. 70001
                reason = sx.sym_bytes("rs%d" % ci, 2)
                was_connected = ws.connected
                in_range = sx.And(status >= 0, status <= 65535)
                try:
                    if call == "close":
                        ws.close(status, reason, timeout=1)
                    else:
                        ws.send_close(status, reason)
                    outcome = "ok"
                    if not (call == "close" and not was_connected):
                        sx.require(in_range, "out-of-range close status must be refused", call=call)
                    if in_range and (call == "send_close" or was_connected):
                        closes_expected.append((call, sx.to_bytes_be(status_unsigned(status), 2) + reason))
                except ValueError:
                    outcome = "valueerror"
                    sx.require(sx.Not(in_range), "in-range close status refused", call=call)
                    sx.require(len(sock.log) == before_log, "status refused only after touching the transport", call=call)
                    cover("status-refused")
            elif call == "shutdown":
                ws.shutdown()
                outcome = "ok"
        except Closed:
            outcome = "closed-exc"
        except Timed:
            outcome = "timeout"
        except Proto:
            outcome = "proto"
        except ConnectionResetError:
            outcome = "reset"
        except (sx.Control, sx.ConcreteFailure, sx.ReplayMismatch):
            raise
        except Exception as e:
            sx.require(False, "%s raised %s" % (call, type(e).__name__), ci=ci)
            return
        touched = len(sock.log) > before_log
        if released:
            # clause (c): after close()/loss every later send/recv/ping raises connection-closed, no transport call
            sx.require(not touched, "no transport call after the connection was closed or lost", call=call, why=why)
            if call in ("send", "recv", "ping"):
                sx.require(outcome == "closed-exc", "send/recv/ping after close or loss must raise the connection-closed exception",
                           call=call, why=why, got=outcome)
            cover("after-release")
        # reference bookkeeping
        if call == "recv" and outcome == "got-close":
            n_now = len([f for f in decode_client_frames(sock.wire()) if f[0] != "TRUNCATED" and f[2] == 8])
            if n_now > len(closes_expected):
                # RFC 6455 5.5.1: a close frame is answered only if none was sent before
                sx.require(len(closes_expected) == 0, "close frame received after the client already sent one must not be answered again",
                           calls=",".join(calls), events=",".join(events))
                closes_expected.append(("reply", b"\x03\xe8"))
            else:
                sx.require(len(closes_expected) > 0, "the server's close frame is answered with a close frame")
        if not released:
            if call == "shutdown" or (call == "close" and outcome == "ok"):
                sx.require(sock.closed and ws.sock is None,
                           "after close()/shutdown() the transport is released (closed and dropped)", call=call,
                           state="connected" if (call == "close" and was_connected) or call == "shutdown" else "already closing")
                released, why = True, call
            elif outcome == "closed-exc" and call == "recv":
                sx.require(sock.closed and ws.sock is None, "loss of the peer releases the transport", call=call)
                released, why = True, "eof"
            elif outcome == "reset":
                sx.require(sock.closed and ws.sock is None, "connection reset by the peer releases the transport", call=call)
                released, why = True, "reset"
    # clause (a): at most one close frame on the client's own initiative (close() or automatic reply); explicit
    # send_close() calls are the caller's own frames and are only checked for their content
    frames = [f for f in decode_client_frames(sock.wire())]
    sx.require(all(f[0] != "TRUNCATED" for f in frames), "client wrote only whole frames")
    closes = [f for f in frames if f[0] != "TRUNCATED" and f[2] == 8]
    sx.require(len(closes) == len(closes_expected), "close frames on the wire == close frames requested or owed", n=len(closes),
               exp=len(closes_expected), calls=",".join(calls), events=",".join(events))
    own = [o for o, _ in closes_expected if o in ("close", "reply")]
    sx.require(len(own) <= 1, "at most one close frame per connection on the client's own initiative (close() or reply)", n=len(own),
               calls=",".join(calls), events=",".join(events))
    for f, (origin, exp) in zip(closes, closes_expected):
        sx.require(f[4] == exp, "close frame carries the requested status (big-endian) and reason (1000 for a reply)", origin=origin)
        cover("close-frame")
    cover("history")


def h_fault(first, accept):
    """a close frame whose write is cut by a transport fault (short write, then timeout): whatever the application does next,
    no second close frame may be started on this connection"""
    quiet_logging()
    Proto, Payload, Closed, Timed = _excs()
    clock = Clock()
    C, real_time = _install_clock(clock)
    try:
        inc = [server_frame(1, 8, b"\x03\xe8"), ("silence",)] if first == "reply" else [("silence",)]
        sock = TSock(clock, inc)
        sock.timeout = 5
        sock.accept = [accept, "timeout"] if accept else ["timeout"]
        ws = new_ws(sock, get_mask_key=KeySource([bytes(4)] * 8))
        try:
            if first == "reply":
                ws.recv_data(True)
            elif first == "send_close":
                ws.send_close(1000, b"bye")
            else:
                ws.close(1000, b"bye", timeout=1)
        except (Timed, Closed):
            pass
        except (sx.Control, sx.ConcreteFailure, sx.ReplayMismatch):
            raise
        except Exception as e:
            sx.require(False, "%s raised %s on a write fault" % (first, type(e).__name__))
            return
        sock.accept = []
        try:
            ws.close(1001, b"x", timeout=1)
        except (Timed, Closed):
            pass
        starts = [b for b in getattr(sock, "frame_starts", []) if b is not None and (b & 0x0F) == 8]
        sx.require(len(starts) <= 1, "no second close frame is started after the first one was cut by a transport fault", first=first,
                   accept=accept, got=len(starts))
        sx.require(sock.closed and ws.sock is None, "close() releases the transport after a write fault", first=first)
        cover("fault")
    finally:
        C.restore()


def status_unsigned(status):
    """status is known to be within 0..65535 on this path: drop the sign bit of the symbolic value"""
    if isinstance(status, core.SymInt):
        import z3
        return core.SymInt(z3.Extract(15, 0, status.t), 16, False)
    return status


def h_timeout(server):
    """close(timeout=t) against a server of the given kind returns by start + 2t (virtual time); t and the server's
    delays are solver reals"""
    quiet_logging()
    clock = Clock()
    C, real_time = _install_clock(clock)
    try:
        t = sx.sym_real("t")
        sx.assume(sx.And(t >= 0, t <= 10))
        if server == "flood0":
            # timeout=0 means "do not wait": frames that are already buffered must not keep close() reading
            sx.assume(t == 0)
            inc = [("chatty", 0, server_frame(1, 2, b"yy"))]
        elif server == "silent":
            inc = [("silence",)]
        elif server == "answering":
            d = sx.sym_real("d")
            sx.assume(sx.And(d >= 0, d <= 30))
            inc = [("wait", d), server_frame(1, 8, b"\x03\xe8"), "eof"]
        elif server == "data-then-close":
            d = sx.sym_real("d")
            e = sx.sym_real("e")
            sx.assume(sx.And(d >= 0, d <= 30, e >= 0, e <= 30))
            inc = [("wait", d), server_frame(1, 2, b"x"), ("wait", e), server_frame(1, 8, b""), "eof"]
        elif server == "chatty":
            delta = sx.sym_real("delta")
            sx.assume(sx.And(delta * 3 >= t, delta > 0, delta <= 30))
            inc = [("chatty", delta, server_frame(1, 2, b"yy"))]
        elif server == "eof":
            d = sx.sym_real("d")
            sx.assume(sx.And(d >= 0, d <= 30))
            inc = [("wait", d), "eof"]
        else:
            raise AssertionError(server)
        sock = TSock(clock, inc)
        sock.timeout = 7
        ws = new_ws(sock, get_mask_key=KeySource([bytes(4)] * 8))
        start = clock.now
        try:
            ws.close(timeout=t)
        except (sx.Control, sx.ConcreteFailure, sx.ReplayMismatch):
            raise
        except Exception as e:
            sx.require(False, "close() raised %s" % type(e).__name__, server=server)
            return
        sx.require(clock.now - start <= 2 * t, "close(timeout=t) returns within 2t whether or not the server answers", server=server)
        if server == "flood0":
            sx.require(getattr(sock, "chatty", 0) <= 2, "close(timeout=0) does not keep consuming a stream of already-buffered frames",
                       frames=getattr(sock, "chatty", 0))
        sx.require(sock.closed and ws.sock is None, "close() releases the transport", server=server)
        frames = decode_client_frames(sock.wire())
        sx.require(len([f for f in frames if f[2] == 8]) == 1, "close() writes exactly one close frame", server=server)
        cover("timeout-" + server)
    finally:
        C.restore()


def obligations(tier):
    import itertools
    thorough = tier == "thorough"
    hist = []
    maxc, maxe = (4, 3) if thorough else (3, 2)  # (4-call sequences only with <=2 events, see below)
    for nc in range(1, maxc + 1):
        for calls in itertools.product(CALLS, repeat=nc):
            if nc == maxc and not thorough and calls.count("send") + calls.count("ping") > 1:
                continue
            if nc == 4 and (calls.count("send") + calls.count("ping") > 1 or len(set(calls)) < 3):
                continue
            for ne in range(0, (maxe if nc < 4 else 2) + 1):
                for events in itertools.product(EVENTS, repeat=ne):
                    # events after a terminal one are unreachable: skip duplicates
                    if any(e in ("eof", "reset", "silence") for e in events[:-1]):
                        continue
                    hist.append(dict(calls=list(calls), events=list(events)))
    # the same on a non-blocking transport (round 8): histories whose server script ends in end of stream
    nb = []
    for calls in itertools.product(("send", "recv", "ping", "close"), repeat=3):
        if "recv" not in calls:
            continue
        for events in (("eof",), ("text", "eof"), ("ping", "eof"), ("close0", "eof")):
            nb.append(dict(calls=list(calls), events=list(events), nonblocking=True))
    hist += nb
    servers = ["silent", "answering", "data-then-close", "chatty", "eof", "flood0"]
    return [
        Obligation("H-hist", h_hist, hist,
                   bounds="all sequences of <=%d client calls over {send, recv, ping, close, send_close, shutdown} x all server scripts of <=%d events over "
                          "{data, ping, close without/with body, end of stream, reset, silence}; close status symbolic in [-2, 70001], reason 2 symbolic bytes; "
                          "plus 3-call histories with a receive on a NON-BLOCKING transport whose server script ends in end of stream"
                          % (maxc, maxe), must_cover=["history", "after-release", "status-refused", "close-frame"],
                   budget_s=3000 if thorough else 1200,
                   kernel=["WebSocket.close", "send_close", "shutdown", "send", "ping", "recv_data_frame (close branch)", "_send", "_recv",
                           "_socket.send", "_socket.recv"]),
        Obligation("H-fault", h_fault, [dict(first=f, accept=a) for f in ("send_close", "reply", "close") for a in (0, 1, 3, 7)],
                   bounds="the close frame of send_close() / of the automatic reply / of close() is cut after 0, 1, 3 or 7 bytes by a write timeout, then close() is called",
                   must_cover=["fault"], kernel=["WebSocket.send_close", "close", "recv_data_frame (close branch)", "send_frame", "_socket.send"]),
        Obligation("H-timeout", h_timeout, [dict(server=s) for s in servers],
                   bounds="close(timeout=t), t a solver real in [0,10] (0 = do not wait); servers: silent / close after d / data then close after d,e / a whole frame every "
                          "delta >= t/3 / end of stream after d; d,e,delta solver reals <= 30",
                   must_cover=["timeout-" + s for s in servers], kernel=["WebSocket.close"]),
    ]
