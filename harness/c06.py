"""C06 — text (and close reasons) accepted exactly when the whole payload is well-formed UTF-8."""
import bvsym as sx
from bvsym import core, utf8ref
from .envpatch import EnvPatch
from .common import FakeSock, Obligation, cover, new_ws, quiet_logging, server_frame

PROPERTY = "C06"
EXPLANATION = ("The validator's transition function _decode is executed on a SYMBOLIC byte (all 256 values at once) "
               "from every state pair of a simulation relation with an independent 9-state reference DFA for "
               "Unicode Table 3-7 (U-sim: successor in relation, reject <=> dead; end-of-input decision per pair), "
               "which is the language-equality argument for byte strings of ANY length; cross-checked by "
               "validate_utf8 on all byte strings up to a bound (U-bnd) and by fragmented text messages and close "
               "reasons through the receive API (U-msg).")
ASSUMPTIONS = ["U-sim: the candidate relation is proposed by native enumeration and then VERIFIED by the solver for all "
               "byte values; _validate_utf8 is assumed to be a left-to-right fold of _decode (its end-of-input decision "
               "is checked from a witness prefix of every pair followed by 0..1 symbolic bytes)"]

_REL = None


def relation():
    """reachable pairs (impl_state, ref_state) with a witness string each — proposal only"""
    global _REL
    if _REL is not None:
        return _REL
    import websocket._utils as U
    start = (sx.unit(U, "_UTF8_ACCEPT"), 0)
    rel = {start: b""}
    work = [start]
    while work:
        s, r = work.pop()
        for b in range(256):
            s2, _ = sx.unit(U, "_decode")(s, 0, b)
            r2 = utf8ref.step_concrete(r, b)
            if s2 == sx.unit(U, "_UTF8_REJECT") or r2 == utf8ref.DEAD:
                continue
            if (s2, r2) not in rel:
                rel[(s2, r2)] = rel[(s, r)] + bytes([b])
                work.append((s2, r2))
    _REL = rel
    return rel


def _ref_step(r, b):
    if isinstance(b, int):
        return utf8ref.step_concrete(r, b)
    import z3
    return core.SymInt(z3.simplify(utf8ref.step_term(z3.BitVecVal(r, 4), b.t)), 4, False)


def u_sim_step(idx):
    """one transition from the idx-th pair of the relation on a symbolic byte and arbitrary codep"""
    import websocket._utils as U
    rel = relation()
    pairs = sorted(rel)
    sx.require(len(pairs) <= 12, "relation larger than the enumerated scenarios")
    if idx >= len(pairs):
        cover("pair-%d-absent" % idx)
        sx.require(True, "no such pair")
        return
    s, r = pairs[idx]
    b = sx.sym_int("b", 8)
    codep = sx.sym_int("codep", 21)
    s2, c2 = sx.unit(U, "_decode")(s, codep, b)
    r2 = _ref_step(r, b)
    rej = s2 == sx.unit(U, "_UTF8_REJECT")
    sx.require(sx.Iff(rej, r2 == utf8ref.DEAD), "validator rejects the byte exactly when the reference DFA dies", pair=str((s, r)))
    inrel = sx.Or([sx.And(s2 == p[0], r2 == p[1]) for p in pairs])
    sx.require(sx.Or(rej, inrel), "successor pair stays inside the simulation relation", pair=str((s, r)))
    cover("step")


def u_sim_end(idx, extra):
    """end-of-input decision: real _validate_utf8 on (witness of pair idx) + `extra` symbolic bytes"""
    import websocket._utils as U
    rel = relation()
    pairs = sorted(rel)
    if idx >= len(pairs):
        sx.require(True, "no such pair")
        return
    w = rel[pairs[idx]]
    tail = sx.sym_bytes("x", extra)
    data = w + tail if extra else w
    got = sx.unit(U, "_validate_utf8")(data)
    exp = sx.utf8_valid(data)
    sx.require(sx.Iff(got, exp), "validate_utf8 answer at end of input equals the reference (truncated sequences are ill-formed)",
               pair=str(pairs[idx]))
    cover("end")


def u_bnd(n):
    from websocket._utils import validate_utf8
    b = sx.sym_bytes("s", n)
    got = validate_utf8(b)
    sx.require(sx.Iff(got, sx.utf8_valid(b)), "validate_utf8(b) == well-formed(b)", n=n)
    cover("valid" if got else "invalid")


def u_msg(n, cuts, skip, fire=False):
    """text message of n symbolic bytes cut into fragments at `cuts`; accepted iff well-formed (validation on)"""
    quiet_logging()
    from websocket._exceptions import WebSocketPayloadException, WebSocketProtocolException
    data = sx.sym_bytes("d", n)
    bounds = [0] + list(cuts) + [n]
    stream = b""
    nfr = len(bounds) - 1
    for i in range(nfr):
        stream = stream + server_frame(1 if i == nfr - 1 else 0, 1 if i == 0 else 0, data[bounds[i]:bounds[i + 1]])
    sock = FakeSock([stream, "eof"])
    ws = new_ws(sock, skip_utf8_validation=skip)
    try:
        op, out = ws.recv_data()
        ok = True
    except (WebSocketPayloadException, WebSocketProtocolException):
        ok = False
    except (sx.Control, sx.ConcreteFailure, sx.ReplayMismatch):
        raise
    except Exception as e:
        sx.require(False, "recv_data raised %s" % type(e).__name__)
        return
    if skip:
        sx.require(ok, "validation off: message must be delivered")
        sx.require(out == data, "validation off: bytes pass through unchanged")
        cover("skip-delivered")
        return
    sx.require(sx.Iff(ok, sx.utf8_valid(data)), "text message accepted exactly when the reassembled payload is well-formed",
               n=n, cuts=str(cuts))
    if ok:
        sx.require(out == data, "delivered payload is the concatenation")
        cover("accepted")
    else:
        cover("rejected")


def u_recv(n):
    """same through recv(): returns the decoded text or raises a payload exception; never an internal error"""
    quiet_logging()
    from websocket._exceptions import WebSocketPayloadException, WebSocketProtocolException
    data = sx.sym_bytes("d", n)
    sock = FakeSock([server_frame(1, 1, data), "eof"])
    ws = new_ws(sock)
    try:
        out = ws.recv()
        ok = True
    except (WebSocketPayloadException, WebSocketProtocolException):
        ok = False
    except (sx.Control, sx.ConcreteFailure, sx.ReplayMismatch):
        raise
    except Exception as e:
        sx.require(False, "recv raised %s" % type(e).__name__)
        return
    sx.require(sx.Iff(ok, sx.utf8_valid(data)), "recv() delivers text exactly when well-formed", n=n)
    if ok:
        sx.require(out == sx.text_of(data), "recv() returns the decoding of the payload")
        cover("accepted")
    else:
        cover("rejected")


def u_close(n, skip, masked=False):
    """close frame with status 1000 and an n-byte symbolic reason (optionally masked with a symbolic key: the library accepts
    masked inbound frames; the reason that is judged is the UNMASKED one, the one that is delivered)"""
    quiet_logging()
    from websocket._exceptions import WebSocketProtocolException, WebSocketPayloadException
    reason = sx.sym_bytes("r", n)
    key = sx.sym_bytes("mk", 4) if masked else None
    sock = FakeSock([server_frame(1, 8, b"\x03\xe8" + reason, key), "eof"])
    ws = new_ws(sock, skip_utf8_validation=skip)
    try:
        fr = ws.recv_frame()
        ok = True
    except (WebSocketProtocolException, WebSocketPayloadException):
        ok = False
    except (sx.Control, sx.ConcreteFailure, sx.ReplayMismatch):
        raise
    except Exception as e:
        sx.require(False, "recv_frame raised %s" % type(e).__name__)
        return
    if skip:
        sx.require(ok, "validation off: close frame accepted")
        sx.require(fr.data == b"\x03\xe8" + reason, "validation off: close body unchanged")
        cover("skip-delivered")
        return
    sx.require(sx.Iff(ok, sx.utf8_valid(reason)), "close reason accepted exactly when well-formed UTF-8", n=n, masked=masked)
    if ok:
        sx.require(fr.data == b"\x03\xe8" + reason, "accepted close frame carries the (unmasked) status and reason", n=n, masked=masked)
    cover("accepted" if ok else "rejected")


def u_reconnect(n, lost):
    """a text message is cut off by connection loss after a non-final fragment (or inside a frame); the application calls
    connect() again on the SAME object; the first message of the new connection is judged on its own bytes only"""
    quiet_logging()
    from websocket._exceptions import (WebSocketConnectionClosedException, WebSocketPayloadException,
                                       WebSocketProtocolException)
    from .c03 import HandshakeSock
    import websocket._handshake as HS
    from .common import FakeOs
    stale = sx.sym_bytes("o", 2)
    if lost == "between-fragments":
        first = server_frame(0, 1, stale)
    else:  # inside a frame: header announces 5 bytes, 2 arrive
        first = bytes([0x81, 5]) + stale
    data = sx.sym_bytes("d", n)
    ep = EnvPatch()
    ep.urandom(lambda k: bytes(range(k)))
    try:
        ws = new_ws(None)
        ws.connect("ws://example.test/a", socket=HandshakeSock(first, []))
        try:
            ws.recv_data()
            sx.require(False, "incomplete message delivered")
            return
        except WebSocketConnectionClosedException:
            pass
        ws.connect("ws://example.test/a", socket=HandshakeSock(server_frame(1, 1, data), []))
        try:
            op, out = ws.recv_data()
            ok = True
        except (WebSocketPayloadException, WebSocketProtocolException):
            ok = False
        except (sx.Control, sx.ConcreteFailure, sx.ReplayMismatch):
            raise
        except Exception as e:
            sx.require(False, "receive on the re-connected object raised %s" % type(e).__name__, lost=lost)
            return
    finally:
        ep.restore()
    sx.require(sx.Iff(ok, sx.utf8_valid(data)), "after connect() on the same object a text message is accepted exactly when ITS payload is "
               "well-formed (nothing of the interrupted message lingers)", n=n, lost=lost)
    if ok:
        sx.require(sx.And(op == 1, out == data), "delivered payload is the new message only", n=n, lost=lost)
        cover("re-accepted")
    else:
        cover("re-rejected")


def u_after_proto(nx, nz):
    """TEXT fin=0 (x), then a NEW data frame while the message is open (sequencing violation -> protocol exception); the caller
    catches it and receives again; a third frame (continuation or text, FIN set) arrives.  Whatever is DELIVERED afterwards must
    be a real message: either the original one completed by the continuation (x+z) or the new standalone text (z) - judged on
    exactly those bytes.  (Refusing everything after the violation is acceptable too.)"""
    quiet_logging()
    from websocket._exceptions import (WebSocketConnectionClosedException, WebSocketPayloadException,
                                       WebSocketProtocolException)
    x, y, z = sx.sym_bytes("x", nx), sx.sym_bytes("y", 1), sx.sym_bytes("z", nz)
    op2 = 1 + sx.choice("op2", 2)
    fin2 = sx.choice("fin2", 2)
    op3 = sx.choice("op3", 2)
    stream = sx.cat(server_frame(0, 1, x), server_frame(fin2, op2, y), server_frame(1, op3, z))
    ws = new_ws(FakeSock([stream, "eof"]))
    try:
        ws.recv_data()
        sx.require(False, "a data frame interrupting an open message was not rejected")
        return
    except WebSocketProtocolException:
        pass
    try:
        op, out = ws.recv_data()
    except (WebSocketProtocolException, WebSocketPayloadException, WebSocketConnectionClosedException):
        cover("refused-after")
        return
    except (sx.Control, sx.ConcreteFailure, sx.ReplayMismatch):
        raise
    except Exception as e:
        sx.require(False, "receive after a rejected frame raised %s" % type(e).__name__, op3=op3)
        return
    whole = sx.cat(x, z) if op3 == 0 else z
    sx.require(sx.And(op == 1, out == whole), "a message delivered after a rejected frame consists of exactly its own fragments "
               "(open message + continuation, or the new frame alone)", op3=op3, nx=nx, nz=nz)
    sx.require(sx.utf8_valid(whole), "a text message delivered after a rejected frame is well-formed UTF-8 on its own bytes", op3=op3, nx=nx, nz=nz)
    cover("delivered-after")


def u_after_reject(n, frags):
    """after an ill-formed text message was rejected, later messages are judged on their own bytes (C02's R-after-reject, shared)"""
    from .c02 import r_after_reject
    return r_after_reject(n, frags)


def _all_cuts(n, maxfrag):
    import itertools
    out = [()]
    for k in range(1, maxfrag):
        out += list(itertools.combinations_with_replacement(range(0, n + 1), k))
    return out


def obligations(tier):
    thorough = tier == "thorough"
    NP = 12  # upper bound on the number of pairs enumerated as scenarios (actual count is asserted below)
    nb = 5 if thorough else 4
    msg = []
    for n in range(0, (5 if thorough else 4)):
        for cuts in _all_cuts(n, 3 if not thorough else 4):
            msg.append(dict(n=n, cuts=list(cuts), skip=False))
        msg.append(dict(n=n, cuts=[n // 2], skip=True))
    return [
        Obligation("U-sim-step", u_sim_step, [dict(idx=i) for i in range(NP)],
                   bounds="UNBOUNDED in the string length: every pair of the simulation relation x all 256 byte values x all 21-bit codep values",
                   must_cover=["step"], kernel=["_decode", "_UTF8D"]),
        Obligation("U-sim-end", u_sim_end, [dict(idx=i, extra=e) for i in range(NP) for e in (0, 1)],
                   bounds="end-of-input decision from a witness prefix of every pair, followed by 0 or 1 arbitrary bytes",
                   must_cover=["end"], kernel=["_validate_utf8", "_decode"]),
        Obligation("U-bnd", u_bnd, [dict(n=n) for n in range(0, nb + 1)],
                   bounds="every byte string of length 0..%d" % nb, must_cover=["valid", "invalid"], budget_s=1800,
                   kernel=["validate_utf8", "_validate_utf8", "_decode"]),
        Obligation("U-msg", u_msg, msg, bounds="text message of 0..%d arbitrary bytes in 1..%d fragments, every placement of the cuts "
                   "(incl. empty fragments and cuts inside a code point); validation on and off" % (4 if thorough else 3, 4 if thorough else 3),
                   must_cover=["accepted", "rejected", "skip-delivered"], budget_s=1800,
                   kernel=["continuous_frame.extract", "continuous_frame.add", "recv_data_frame", "validate_utf8"]),
        Obligation("U-reconnect", u_reconnect, [dict(n=n, lost=l) for n in (1, 2, 3) for l in ("between-fragments", "inside-frame")],
                   bounds="connection lost after a non-final text fragment / inside a frame (2 symbolic bytes), connect() again on the same object, "
                          "then a text frame of 1..3 arbitrary bytes", must_cover=["re-accepted", "re-rejected"],
                   kernel=["WebSocket.connect", "frame_buffer", "continuous_frame", "recv_data_frame"]),
        Obligation("U-after-reject", u_after_reject, [dict(n=n, frags=f) for n in (1, 2, 3) for f in (1, 2)],
                   bounds="ill-formed text message of 1..3 symbolic bytes in 1 or 2 fragments (rejected), followed by a binary and a text frame",
                   must_cover=["after-reject"], kernel=["continuous_frame.extract", "continuous_frame.add", "recv_data_frame"]),
        Obligation("U-after-proto", u_after_proto, [dict(nx=a, nz=b) for a in (1, 2) for b in (1, 2)],
                   bounds="text fragment of 1..2 symbolic bytes, an interrupting text/binary frame (FIN symbolic), the caller receives again: "
                          "continuation or text frame of 1..2 symbolic bytes", must_cover=["delivered-after"],
                   kernel=["continuous_frame.validate", "continuous_frame.add", "extract", "recv_data_frame", "validate_utf8"]),
        Obligation("U-recv", u_recv, [dict(n=n) for n in range(0, 5 if thorough else 4)],
                   bounds="single text frame of 0..%d arbitrary bytes through recv()" % (4 if thorough else 3),
                   must_cover=["accepted", "rejected"], kernel=["WebSocket.recv"]),
        Obligation("U-close", u_close, [dict(n=n, skip=s) for n in range(0, 5 if thorough else 4) for s in (False, True)] +
                   [dict(n=n, skip=False, masked=True) for n in (1, 2, 3)],
                   bounds="close frame 1000 + reason of 0..%d arbitrary bytes; validation on and off; masked with a symbolic key for 1..3 bytes" % (4 if thorough else 3),
                   must_cover=["accepted", "rejected", "skip-delivered"], kernel=["ABNF.validate", "validate_utf8"]),
    ]
