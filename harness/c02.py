"""C02 — received frames decode exactly as RFC 6455 prescribes."""
import bvsym as sx
from bvsym import core
from .common import (FakeSock, Obligation, cover, new_ws, quiet_logging, ref_decode_one, ref_len_field, server_frame)

PROPERTY = "C02"
EXPLANATION = ("frame_buffer.recv_frame / WebSocket.recv_frame / recv_data_frame / recv_data / recv executed on an "
               "ARBITRARY symbolic byte stream (R-any) and on symbolic frames of every length class (R-big, R-seq); "
               "FIN, opcode, payload, payload length and the number of bytes consumed are compared with an "
               "independent reference decoder evaluated on the same terms.")
ASSUMPTIONS = ["transport delivers the whole stream as one segment and then end-of-stream (segmentation is C03)"]


def _exc_classes():
    from websocket._exceptions import (WebSocketConnectionClosedException, WebSocketPayloadException,
                                       WebSocketProtocolException)
    return WebSocketProtocolException, WebSocketPayloadException, WebSocketConnectionClosedException


def r_any(T, prefix=""):
    """first recv_frame() on an arbitrary T-byte stream (optionally after a fixed hex prefix) followed by end of stream"""
    quiet_logging()
    Proto, Payload, Closed = _exc_classes()
    stream = sx.sym_bytes("s", T)
    if prefix:
        stream = bytes.fromhex(prefix) + stream
        T = len(stream)
    sock = FakeSock([stream, "eof"])
    ws = new_ws(sock)
    try:
        fr = ws.recv_frame()
        res = "frame"
    except Closed:
        res = "closed"
    except Proto:
        res = "proto"
    except (sx.Control, sx.ConcreteFailure, sx.ReplayMismatch):
        raise
    except Exception as e:
        sx.require(False, "recv_frame raised %s" % type(e).__name__)
        return
    consumed = T - sum(len(c) for c in sock.incoming if not isinstance(c, str))
    ref = ref_decode_one(stream, 0)
    if ref is None:
        cover("truncated")
        sx.require(res == "closed", "incomplete frame then end of stream must report connection closed", got=res)
        return
    fin, rsv, opcode, masked, payload, nxt = ref
    sx.require(res != "closed", "complete frame must not be reported as connection closed")
    sx.require(consumed == nxt, "exactly the bytes of the frame are consumed", got=consumed)
    if res == "frame":
        cover("frame")
        sx.require(fr.fin == fin, "FIN")
        sx.require(fr.opcode == opcode, "opcode")
        sx.require(len(fr.data) == len(payload), "payload length")
        sx.require(fr.data == payload, "payload bytes (unmasked with the wire key)")
        sx.require(sx.And(fr.rsv1 == ((rsv >> 2) & 1), fr.rsv2 == ((rsv >> 1) & 1), fr.rsv3 == (rsv & 1)), "RSV bits")
        if masked:
            cover("masked")
    else:
        cover("rejected")


def _big_stream(form, L, masked, tail):
    """one frame of payload length L in the given length form (7/16/64), payload symbolic at the first and
    last 8 positions, then a short second frame"""
    fin = sx.sym_int("fin", 1)
    opcode = sx.sym_int("opcode", 4)
    sx.assume(sx.Or(opcode == 0, opcode == 1, opcode == 2))
    b0 = sx.mk_bytes([(fin << 7) | opcode])
    m = 0x80 if masked else 0
    if form == 7:
        lf = bytes([m | L])
    elif form == 16:
        lf = bytes([m | 126]) + L.to_bytes(2, "big")
    else:
        lf = bytes([m | 127]) + L.to_bytes(8, "big")
    pos = sorted(set(list(range(min(8, L))) + list(range(max(0, L - 8), L))))
    sym = sx.sym_bytes("p", len(pos))
    pl = [0] * L
    for j, p in enumerate(pos):
        pl[p] = sym[j]
    payload = sx.mk_bytes(pl)
    if masked:
        key = sx.sym_bytes("k", 4)
        wire_payload = sx.mk_bytes([payload[i] ^ key[i % 4] for i in range(L)])
        head = b0 + lf + key
    else:
        wire_payload = payload
        head = b0 + lf
    return fin, opcode, payload, head + wire_payload + tail


def r_big(form, L, masked):
    quiet_logging()
    Proto, Payload, Closed = _exc_classes()
    p2 = sx.sym_bytes("q", 2)
    tail = server_frame(1, 10, p2)  # a pong with 2 symbolic bytes
    fin, opcode, payload, stream = _big_stream(form, L, masked, tail)
    sock = FakeSock([stream, "eof"])
    ws = new_ws(sock)
    try:
        f1 = ws.recv_frame()
        f2 = ws.recv_frame()
    except (sx.Control, sx.ConcreteFailure, sx.ReplayMismatch):
        raise
    except Exception as e:
        sx.require(False, "valid frames rejected with %s" % type(e).__name__, form=form, L=L)
        return
    sx.require(sx.And(f1.fin == fin, f1.opcode == opcode), "FIN/opcode of the long frame", form=form, L=L)
    sx.require(len(f1.data) == L, "payload length of the long frame", form=form, L=L)
    sx.require(f1.data == payload, "payload of the long frame", form=form, L=L)
    sx.require(sx.And(f2.fin == 1, f2.opcode == 10), "following frame parsed from its true start (header)", form=form, L=L)
    sx.require(f2.data == p2, "following frame parsed from its true start (payload)", form=form, L=L)
    sx.require(all(not isinstance(c, (bytes, bytearray, core.SymBytes)) or len(c) == 0 for c in sock.incoming),
               "both frames consumed completely", form=form, L=L)
    cover("two-frames")


def r_resume2(form):
    """as R-resume, but the interrupted read has already been served by TWO partial transport reads (cut positions solver choices
    over the header and the first payload bytes) when the timeout strikes"""
    quiet_logging()
    from websocket._exceptions import WebSocketTimeoutException
    L = 126 if form == 16 else 130
    p2 = sx.sym_bytes("q", 2)
    fin, opcode, payload, stream = _big_stream(form, L, 0, server_frame(1, 2, p2))
    hdr = 2 + (2 if form == 16 else 8)
    c1 = sx.choice("c1", hdr + 3) + 1
    c2 = c1 + sx.choice("c2", 4) + 1
    sock = FakeSock([stream[:c1], stream[c1:c2], "timeout", stream[c2:], "eof"])
    ws = new_ws(sock)
    frames, timeouts = [], 0
    while len(frames) < 2 and timeouts < 3:
        try:
            frames.append(ws.recv_frame())
        except WebSocketTimeoutException:
            timeouts += 1
        except (sx.Control, sx.ConcreteFailure, sx.ReplayMismatch):
            raise
        except Exception as e:
            sx.require(False, "resumed receive raised %s" % type(e).__name__, form=form, c1=c1, c2=c2)
            return
    sx.require(len(frames) == 2 and timeouts == 1, "both frames are delivered after exactly one timeout", form=form, c1=c1, c2=c2, got=len(frames))
    if len(frames) != 2:
        return
    f1, f2 = frames
    sx.require(len(f1.data) == L, "payload length of the resumed frame", form=form, c1=c1, c2=c2, got=len(f1.data))
    sx.require(f1.data == payload, "payload of the resumed frame (no byte lost, duplicated or borrowed from the next frame)", form=form, c1=c1, c2=c2)
    sx.require(sx.And(f2.opcode == 2, f2.data == p2), "the following frame is parsed from its true start after a resumed read", form=form, c1=c1, c2=c2)
    cover("resumed2")


def r_resume(form, masked):
    """frame with a 16-/64-bit length whose header arrives in two pieces with a receive timeout in between (cut position a
    solver choice over every header byte): after the retry the frame and the FOLLOWING frame decode as without the timeout"""
    quiet_logging()
    from websocket._exceptions import WebSocketTimeoutException
    L = 126 if form == 16 else 130
    p2 = sx.sym_bytes("q", 2)
    fin, opcode, payload, stream = _big_stream(form, L, masked, server_frame(1, 2, p2))
    hdr = 2 + (2 if form == 16 else 8) + (4 if masked else 0)
    cut = sx.choice("cut", hdr + 2) + 1  # 1 .. hdr+2 bytes delivered before the timeout
    sock = FakeSock([stream[:cut], "timeout", stream[cut:], "eof"])
    ws = new_ws(sock)
    frames, timeouts = [], 0
    while len(frames) < 2 and timeouts < 3:
        try:
            frames.append(ws.recv_frame())
        except WebSocketTimeoutException:
            timeouts += 1
        except (sx.Control, sx.ConcreteFailure, sx.ReplayMismatch):
            raise
        except Exception as e:
            sx.require(False, "resumed receive raised %s" % type(e).__name__, form=form, cut=cut)
            return
    sx.require(len(frames) == 2 and timeouts == 1, "both frames are delivered after exactly one timeout", form=form, cut=cut, got=len(frames))
    if len(frames) != 2:
        return
    f1, f2 = frames
    sx.require(sx.And(f1.fin == fin, f1.opcode == opcode, len(f1.data) == L), "header of the resumed frame", form=form, cut=cut, got=len(f1.data))
    sx.require(f1.data == payload, "payload of the resumed frame", form=form, cut=cut)
    sx.require(sx.And(f2.opcode == 2, f2.data == p2), "the following frame is parsed from its true start after a resumed read", form=form, cut=cut)
    cover("resumed")


def r_after_reject(n, frags):
    """an ill-formed text message (n symbolic bytes in `frags` fragments) is rejected with a payload exception; the caller
    goes on receiving: the following frames must decode exactly (nothing of the rejected message may linger)"""
    quiet_logging()
    Proto, Payload, Closed = _exc_classes()
    bad = sx.sym_bytes("x", n)
    sx.assume(sx.Not(sx.utf8_valid(bad)))
    p2 = sx.sym_bytes("q", 2)
    p3 = sx.sym_bytes("r", 1)
    sx.assume(p3[0] < 128)
    stream = b""
    cut = n // 2 if frags == 2 else n
    if frags == 2:
        stream = server_frame(0, 1, bad[:cut]) + server_frame(1, 0, bad[cut:])
    else:
        stream = server_frame(1, 1, bad)
    stream = stream + server_frame(1, 2, p2) + server_frame(1, 1, p3)
    sock = FakeSock([stream, "eof"])
    ws = new_ws(sock)
    try:
        ws.recv_data()
        sx.require(False, "ill-formed text message delivered", n=n)
        return
    except Payload:
        pass
    try:
        op2, d2 = ws.recv_data()
        op3, d3 = ws.recv_data()
    except (sx.Control, sx.ConcreteFailure, sx.ReplayMismatch):
        raise
    except Exception as e:
        sx.require(False, "receive after a rejected message raised %s" % type(e).__name__, n=n, frags=frags)
        return
    sx.require(sx.And(op2 == 2, d2 == p2), "frame after a rejected message decodes with its own opcode and payload", n=n, frags=frags)
    sx.require(sx.And(op3 == 1, d3 == p3), "second frame after a rejected message decodes exactly", n=n, frags=frags)
    cover("after-reject")


def r_threads(apis):
    """two threads receive on ONE connection at the same time (e.g. an application thread in recv() and another in close(), which
    reads frames without the read lock): every scheduling decision at a lock operation or a transport read is a solver choice.
    Each frame of the stream is handed out exactly once, whole, to one of them."""
    quiet_logging()
    Proto, Payload, Closed = _exc_classes()
    import simnet
    k = simnet.Kernel(step_budget=4000, explore_sched=True)
    net = simnet.Net(k, [{}])
    simnet.install(k, net)
    p1, p2 = sx.sym_bytes("p", 3), sx.sym_bytes("q", 1)
    stream = server_frame(1, 2, p1) + server_frame(1, 2, p2)

    class YSock(FakeSock):
        def recv(self, n):
            k.yield_now()
            return FakeSock.recv(self, n)

    results, errs = [], []
    try:
        ws = new_ws(YSock([stream, "eof"]))

        def call(who, api):
            try:
                if api == "recv_frame":
                    fr = ws.recv_frame()
                else:
                    fr = ws.recv_data_frame(True)[1]
                results.append((who, fr.fin, fr.opcode, fr.data))
            except (sx.Control, sx.ConcreteFailure, sx.ReplayMismatch):
                raise
            except Exception as e:
                errs.append("%s: %s" % (who, type(e).__name__))

        pa = k.spawn(lambda: call("A", apis[0]), "A")
        call("B", apis[1])
        k.block(lambda: pa.done, None)
    finally:
        k.shutdown()
        simnet.uninstall()
    sx.require(not errs, "concurrent receivers: a receive call failed (%s)" % "; ".join(errs), apis=str(apis))
    sx.require(len(results) == 2, "both receivers return a frame", got=len(results))
    if len(results) != 2:
        return
    (_, f1, o1, d1), (_, f2, o2, d2) = results
    sx.require(sx.And(f1 == 1, o1 == 2, f2 == 1, o2 == 2, sx.Or(sx.And(d1 == p1, d2 == p2), sx.And(d1 == p2, d2 == p1))),
               "two concurrent receivers get the two frames of the stream, each whole and exactly once, under every schedule", apis=str(apis))
    cover("threads")


def r_seq(k, api):
    """k back-to-back valid frames with symbolic FIN/opcode/mask/payload; the receive API must hand them out in
    order with identical fields"""
    quiet_logging()
    Proto, Payload, Closed = _exc_classes()
    frames = []
    stream = b""
    for i in range(k):
        n = sx.choice("n%d" % i, 4)
        masked = sx.choice("m%d" % i, 2)
        payload = sx.sym_bytes("p%d" % i, n)
        key = sx.sym_bytes("k%d" % i, 4) if masked else None
        if api == "recv_frame":
            fin = sx.sym_int("fin%d" % i, 1)
            opcode = sx.sym_int("op%d" % i, 4)
            sx.assume(sx.Or(opcode == 0, opcode == 1, opcode == 2, sx.And(sx.Or(opcode == 9, opcode == 10), fin == 1)))
        else:
            fin = 1
            opcode = sx.sym_int("op%d" % i, 4)
            sx.assume(sx.Or(opcode == 1, opcode == 2, opcode == 10))
        frames.append((fin, opcode, payload))
        stream = stream + server_frame(fin, opcode, payload, key)
    sock = FakeSock([stream, "eof"])
    ws = new_ws(sock, skip_utf8_validation=True)
    for i, (fin, opcode, payload) in enumerate(frames):
        try:
            if api == "recv_frame":
                fr = ws.recv_frame()
                got = (fr.fin, fr.opcode, fr.data)
            elif api == "recv_data_frame":
                op, fr = ws.recv_data_frame(True)
                sx.require(op == fr.opcode, "opcode returned twice consistently", i=i)
                got = (fr.fin, fr.opcode, fr.data)
            elif api == "recv_data":
                op, data = ws.recv_data(True)
                got = (1, op, data)
            else:
                raise AssertionError(api)
        except (sx.Control, sx.ConcreteFailure, sx.ReplayMismatch):
            raise
        except Exception as e:
            sx.require(False, "valid frame sequence rejected with %s" % type(e).__name__, i=i, api=api)
            return
        sx.require(got[0] == fin, "FIN of frame i", i=i, api=api)
        sx.require(got[1] == opcode, "opcode of frame i", i=i, api=api)
        sx.require(got[2] == payload, "payload of frame i", i=i, api=api)
    try:
        ws.recv_frame()
        sx.require(False, "a frame is returned after the stream ended", api=api)
    except Closed:
        cover("seq-done")


def r_msg(op, n):
    """recv(): text decoded to str, binary returned as bytes, single-frame messages in order"""
    quiet_logging()
    p1 = sx.sym_bytes("a", n)
    p2 = sx.sym_bytes("b", n)
    stream = server_frame(1, op, p1) + server_frame(1, 3 - op, p2)
    sock = FakeSock([stream, "eof"])
    ws = new_ws(sock)
    Proto, Payload, Closed = _exc_classes()
    outs = []
    for p, o in ((p1, op), (p2, 3 - op)):
        try:
            r = ws.recv()
        except Payload:
            sx.require(sx.And(o == 1, sx.Not(sx.utf8_valid(p))), "payload exception only for ill-formed text", op=o)
            cover("payload-exc")
            return
        except (sx.Control, sx.ConcreteFailure, sx.ReplayMismatch):
            raise
        except Exception as e:
            sx.require(False, "recv raised %s" % type(e).__name__, op=o)
            return
        if o == 1:
            sx.require(sx.utf8_valid(p), "text delivered only when well-formed")
            sx.require(r == sx.text_of(p), "text message is the UTF-8 decoding of the payload")
            sx.require(isinstance(r, (str, sx.SymStr, sx.SymText)), "text delivered as str")
        else:
            sx.require(r == p, "binary message is the payload")
            sx.require(isinstance(r, (bytes, sx.SymBytes)), "binary delivered as bytes")
    cover("both-delivered")


def _u_reconnect(n, lost):
    from .c06 import u_reconnect
    return u_reconnect(n, lost)


def obligations(tier):
    thorough = tier == "thorough"
    Ts = list(range(0, 11 if thorough else 9))
    big = []
    for masked in (0, 1):
        for form, L in ((7, 0), (7, 125), (16, 0), (16, 5), (16, 125), (16, 126), (16, 127), (16, 65535), (64, 0),
                        (64, 3), (64, 126), (64, 65535), (64, 65536), (64, 70000)):
            if L >= 65535 and not thorough and masked and form == 64 and L == 70000:
                continue
            big.append(dict(form=form, L=L, masked=masked))
    seq = [dict(k=k, api=api) for api in ("recv_frame", "recv_data_frame", "recv_data") for k in ((1, 2, 3) if thorough else (1, 2))]
    return [
        Obligation("R-any", r_any, [dict(T=t) for t in Ts] + [dict(T=t, prefix=p) for p in ("827f", "02ff", "817e", "89fe") for t in ((8, 9, 10, 12) if p[2:] in ("7f", "ff") else (2, 3, 4, 6))],
                   bounds="EVERY byte stream of length T for T = 0..%d (all %d-bit values at once), then end of stream; plus streams starting with a fixed 16-/64-bit-length header followed by 8..12 (2..6) arbitrary bytes, i.e. ALL 64-bit declared lengths" % (Ts[-1], 8 * Ts[-1]),
                   outside=["streams longer than the bound (structure beyond it is covered by R-big/R-seq shapes)"],
                   must_cover=["frame", "truncated", "rejected", "masked"], budget_s=2400 if thorough else 600,
                   kernel=["frame_buffer.recv_frame", "recv_header", "recv_length", "recv_mask", "recv_strict", "ABNF.mask",
                           "_mask", "ABNF.validate", "WebSocket.recv_frame", "_socket.recv"]),
        Obligation("R-big", r_big, big,
                   bounds="length forms 7/16/64-bit incl. non-minimal encodings, L in {0,3,5,125,126,127,65535,65536,70000}, masked and "
                          "unmasked; payload symbolic at first/last 8 positions; followed by a second symbolic frame",
                   must_cover=["two-frames"], budget_s=900, kernel=["frame_buffer.recv_frame", "recv_length", "recv_strict"]),
        Obligation("R-resume", r_resume, [dict(form=f, masked=m) for f in (16, 64) for m in (0, 1)],
                   bounds="16-/64-bit length frames (126 / 130 bytes), masked and not, with one receive timeout after every possible number of header bytes",
                   must_cover=["resumed"], kernel=["frame_buffer.recv_frame (stage flags)", "recv_length", "recv_mask"]),
        Obligation("R-after-reject", r_after_reject, [dict(n=n, frags=f) for n in (1, 2, 3) for f in (1, 2)],
                   bounds="ill-formed text message of 1..3 symbolic bytes in 1 or 2 fragments, followed by a binary and a text frame",
                   must_cover=["after-reject"], kernel=["continuous_frame.extract", "continuous_frame.add", "recv_data_frame"]),
        Obligation("R-resume2", r_resume2, [dict(form=f) for f in (16, 64)],
                   bounds="as R-resume with two partial reads (every pair of cut positions over header + first payload bytes) before the timeout",
                   must_cover=["resumed2"], kernel=["frame_buffer.recv_strict", "recv_frame"]),
        Obligation("R-threads", r_threads, [dict(apis=a) for a in (("recv_frame", "recv_frame"), ("recv_data_frame", "recv_frame"))],
                   bounds="2 threads, one receive call each on a stream of two binary frames (3 and 1 symbolic bytes); every scheduling decision at a "
                          "lock acquire/release and before each transport read is a solver choice (all schedules at that granularity)",
                   outside=["preemption between two bytecodes that are not separated by a lock operation or a transport read"],
                   must_cover=["threads"], step_budget=400000, kernel=["frame_buffer.recv_frame (frame lock)", "WebSocket.recv_data_frame", "WebSocket.recv_frame"]),
        Obligation("R-reconnect", _u_reconnect, [dict(n=n, lost=l) for n in (1, 2) for l in ("between-fragments", "inside-frame")],
                   bounds="connection lost inside a frame / between fragments, connect() again on the same object, then a text frame of 1..2 arbitrary bytes "
                          "(shared with C06 U-reconnect)", must_cover=["re-accepted"], kernel=["WebSocket.connect", "frame_buffer", "continuous_frame"]),
        Obligation("R-seq", r_seq, seq, bounds="k back-to-back frames (k<=%d), each: FIN, opcode, mask bit, key symbolic; payload "
                   "length 0..3 symbolic bytes; through recv_frame / recv_data_frame / recv_data" % max(s["k"] for s in seq),
                   must_cover=["seq-done"], budget_s=2400 if thorough else 600,
                   kernel=["WebSocket.recv_frame", "recv_data_frame", "recv_data"]),
        Obligation("R-msg", r_msg, [dict(op=op, n=n) for op in (1, 2) for n in ((0, 1, 2, 3, 4) if thorough else (0, 1, 2, 3))],
                   bounds="two single-frame messages (text+binary in both orders), payload 0..4 arbitrary bytes, through recv()",
                   must_cover=["both-delivered", "payload-exc"], kernel=["WebSocket.recv", "continuous_frame.extract"]),
    ]
