"""Replacing the environment of the repository's code by IDENTITY, not by name.

The harnesses replace `os.urandom`, `hashlib`, `hmac`, `base64`, `ssl`, `time`, `threading`, `selectors`, `socket`, `inspect`
as seen from the repository's modules.  Doing that by assigning `websocket._handshake.os = ...` ties a check to one import style
(`import os` vs `from os import urandom`, `encodebytes` vs `b64encode`, a helper moved to another module).  EnvPatch looks, in
the namespaces of all loaded `websocket.*` modules, for every global that IS the real object (a stdlib module or function) and
rebinds it; restore() puts every binding back.  A refactoring that keeps behaviour therefore keeps the stubs in place."""
import base64 as _base64
import hashlib as _hashlib
import hmac as _hmac
import os as _os
import sys
import types

_SysModules = object()


def repo_modules():
    return [m for n, m in list(sys.modules.items()) if m is not None and (n == "websocket" or n.startswith("websocket."))]


class ModProxy:
    """stands for a stdlib module inside the repository's namespaces: overridden attributes first, the real module otherwise"""

    def __init__(self, real, **over):
        self.__dict__["_real"] = real
        self.__dict__.update(over)

    def __getattr__(self, k):
        return getattr(self.__dict__["_real"], k)

    def __repr__(self):
        return "<stand-in for %r>" % (self.__dict__["_real"],)


class EnvPatch:
    def __init__(self):
        self.undo = []

    def replace(self, real, repl, only=None):
        """every global of the repository's modules that is `real` (or an earlier stand-in for it) now refers to `repl`;
        returns the number of bindings changed"""
        n = 0
        if isinstance(real, types.ModuleType) and only is None:
            self.swap_sys_modules(real, repl)
        for m in repo_modules():
            if only is not None and m.__name__ not in only:
                continue
            for k, v in list(m.__dict__.items()):
                if k.startswith("__"):
                    continue
                if v is real or (getattr(v, "__dict__", None) is not None and v.__dict__.get("_real") is real and v is not repl):
                    self.undo.append((m, k, v))
                    m.__dict__[k] = repl
                    n += 1
        return n

    def swap_sys_modules(self, real, repl):
        """an `import x` / `from x import f` statement INSIDE a function of the repository is executed at call time and takes
        whatever sys.modules holds: the stand-in goes there too for the duration of the patch (it forwards everything it does
        not override to the real module)"""
        for key, mod in list(sys.modules.items()):
            if mod is real or (mod is not None and getattr(mod, "__dict__", {}).get("_real") is real and mod is not repl):
                self.undo.append((_SysModules, key, mod))
                sys.modules[key] = repl

    def restore(self):
        for m, k, v in reversed(self.undo):
            if m is _SysModules:
                sys.modules[k] = v
            else:
                m.__dict__[k] = v
        self.undo = []

    def __enter__(self):
        return self

    def __exit__(self, *a):
        self.restore()

    # ------------------------------------------------------------------ common stubs
    def urandom(self, fn, prefer=("websocket._handshake",)):
        """os.urandom as seen from the module(s) that draw the handshake key (`prefer`); if no such binding exists there (the
        drawing code was moved), from every repository module"""
        proxy = ModProxy(_os, urandom=fn)
        self.swap_sys_modules(_os, proxy)
        for only in (prefer, None):
            n = self.replace(_os, proxy, only) + self.replace(_os.urandom, fn, only)
            if n:
                return n
        return 0

    def environ(self, env, prefer, **more):
        """os.environ (and os.path predicates given in `more`) as seen from the preferred modules"""
        for only in (prefer, None):
            n = self.replace(_os, ModProxy(_os, environ=env, **more), only)
            n += self.replace(_os.environ, env, only)
            if n:
                return n
        return 0

    def os_env(self, env, files=None, dirs=None):
        """os.environ / os.getenv (and, when given, os.path.isfile / isdir) in every form the repository may have bound them:
        `import os`, `from os import environ, getenv, path`, `from os.path import isfile, isdir`, `import os.path as p`"""
        over = dict(environ=env, getenv=lambda k, d=None: env.get(k, d))
        n = 0
        if files is not None or dirs is not None:
            files, dirs = files or set(), dirs or set()
            isfile, isdir = (lambda p: p in files), (lambda p: p in dirs)
            pathproxy = ModProxy(_os.path, isfile=isfile, isdir=isdir, exists=lambda p: p in files or p in dirs)
            over["path"] = pathproxy
            n += self.replace(_os.path, pathproxy) + self.replace(_os.path.isfile, isfile) + self.replace(_os.path.isdir, isdir)
        n += self.replace(_os, ModProxy(_os, **over)) + self.replace(_os.environ, env) + self.replace(_os.getenv, over["getenv"])
        return n

    def clock(self, time_fn, sleep_fn):
        """time.time / time.sleep (module or from-imported, any alias) as seen from the repository"""
        import time as _time
        return (self.replace(_time, ModProxy(_time, time=time_fn, sleep=sleep_fn, monotonic=time_fn))
                + self.replace(_time.time, time_fn) + self.replace(_time.sleep, sleep_fn) + self.replace(_time.monotonic, time_fn))

    def handshake_crypto(self, sha1=None, compare_digest=None, b64=None):
        """sha1(bytes) -> object with .digest(); compare_digest(a, b); b64(bytes) -> bytes WITHOUT trailing newline (the newline
        of encodebytes is added here)"""
        if sha1 is not None:
            self.replace(_hashlib, ModProxy(_hashlib, sha1=sha1))
            self.replace(_hashlib.sha1, sha1)
        if compare_digest is not None:
            self.replace(_hmac, ModProxy(_hmac, compare_digest=compare_digest))
            self.replace(_hmac.compare_digest, compare_digest)
        if b64 is not None:
            nl = lambda b: b64(b) + b"\n"  # noqa: E731
            self.replace(_base64, ModProxy(_base64, encodebytes=nl, b64encode=b64, standard_b64encode=b64))
            self.replace(_base64.encodebytes, nl)
            self.replace(_base64.b64encode, b64)
            self.replace(_base64.standard_b64encode, b64)
