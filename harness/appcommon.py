"""Helpers shared by the WebSocketApp harnesses (C13-C16): run the real run_forever on the virtual-time kernel and
record every callback with its virtual time."""
import bvsym as sx
from bvsym import core
import simnet
from simnet import Kernel, Net
from .common import quiet_logging, server_frame  # noqa

CALLBACKS = ("on_open", "on_message", "on_data", "on_ping", "on_pong", "on_cont_message", "on_error", "on_close", "on_reconnect")


class AppRun:
    def __init__(self, specs, url="ws://h.example/x", callbacks=CALLBACKS, raise_in=None, raise_exc=None, outcomes=None,
                 step_budget=600, tls=False, hooks=None, addrinfo=None, app_kwargs=None):
        quiet_logging()
        import websocket
        self.k = Kernel(step_budget=step_budget)
        self.net = Net(self.k, specs, outcomes, addrinfo=addrinfo, tls=tls)
        simnet.install(self.k, self.net, tls=tls)
        self.trace = []
        self.raise_in = raise_in
        self.raise_exc = raise_exc or RuntimeError("callback failed")
        self.hooks = hooks or {}
        kw = {}
        for name in callbacks:
            kw[name] = self._cb(name)
        kw.update(app_kwargs or {})
        self.app = websocket.WebSocketApp(url, **kw)
        self.ret = None
        self.exc = None

    def _cb(self, name):
        def f(app, *a):
            self.trace.append((name, self.k.now, a))
            h = self.hooks.get(name)
            if h:
                h(self, *a)
            if self.raise_in is not None and self.raise_in == (name, sum(1 for t in self.trace if t[0] == name) - 1):
                raise self.raise_exc
        return f

    def run(self, **rf):
        try:
            try:
                self.ret = self.app.run_forever(**rf)
            except (sx.Control, sx.ConcreteFailure, sx.ReplayMismatch):
                raise
            except simnet.KernelBudget:
                pass
            except BaseException as e:  # noqa
                self.exc = e
        finally:
            self.nonterm = self.k.budget_exceeded
            self.alive = [t.is_alive() for t in self.k.live_threads]
            self.k.shutdown()
            simnet.uninstall()
        if self.nonterm:
            sx.require(False, "run_forever does not come to an end (virtual-time kernel step budget exhausted)", steps=self.k.step_budget)
            raise sx.Stop()
        return self

    def names(self):
        return [t[0] for t in self.trace]

    def of(self, name):
        return [t for t in self.trace if t[0] == name]


def close_frame(code=None, reason=b""):
    if code is None:
        return server_frame(1, 8, b"")
    return server_frame(1, 8, sx.to_bytes_be(code, 2) + reason)
