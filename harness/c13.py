"""C13 — WebSocketApp delivers every event to its callback exactly once, in order, without waiting."""
import itertools

import bvsym as sx
from bvsym import core
import simnet
from .appcommon import AppRun, close_frame, server_frame
from .common import Obligation, cover

PROPERTY = "C13"
EXPLANATION = ("The real WebSocketApp.run_forever (setSock, read, _callback), Dispatcher.read / SSLDispatcher.read+select, "
               "WebSocket.connect/handshake and recv_data_frame run on the virtual-time kernel against a fake server whose "
               "history has symbolic payloads and symbolic arrival times (solver reals); the recorded callback trace — "
               "callback, arguments, virtual time — is compared with a reference trace computed from the history.")
ASSUMPTIONS = simnet.ASSUMPTIONS + [
    "arrival gaps are solver reals in (0, 8): below the select timeout, so the loop is exercised without ping traffic",
    "on_cont_message is left unset when the history contains fragmented messages (per-fragment delivery is not part of the statement)",
    "the run is ended by a server close frame after the history; what happens at the end is C14's subject",
]

KINDS = ("T", "B", "F", "P", "O")  # text, binary, fragmented binary (2 frames), ping, pong
# extra kind "G": a text message whose single 2-byte character is split across two fragments


def _frames(kind, i):
    """(bytes on the wire, expected callbacks) for event i"""
    if kind == "T":
        p = sx.sym_bytes("e%d" % i, 1)
        sx.assume(p[0] < 128)
        return server_frame(1, 1, p), [("on_data", (sx.text_of(p), 1, True)), ("on_message", (sx.text_of(p),))]
    if kind == "B":
        p = sx.sym_bytes("e%d" % i, 2)
        return server_frame(1, 2, p), [("on_data", (p, 2, True)), ("on_message", (p,))]
    if kind == "F":
        p = sx.sym_bytes("e%d" % i, 2)
        return (server_frame(0, 2, p[:1]) + server_frame(1, 0, p[1:]),
                [("on_data", (p, 2, True)), ("on_message", (p,))])
    if kind == "G":
        p = sx.sym_bytes("e%d" % i, 2)
        sx.assume(sx.And(p[0] >= 0xC2, p[0] <= 0xDF, p[1] >= 0x80, p[1] <= 0xBF))  # one well-formed 2-byte character
        return (server_frame(0, 1, p[:1]) + server_frame(1, 0, p[1:]),
                [("on_data", (sx.text_of(p), 1, True)), ("on_message", (sx.text_of(p),))])
    if kind in ("E0", "E1", "E2", "E3"):
        # fragmented messages with EMPTY fragments: E0 binary, first fragment empty; E1 text, first fragment empty; E2 binary in
        # three fragments, first and middle empty; E3 binary, all fragments empty (an empty message)
        p = sx.sym_bytes("e%d" % i, 2)
        if kind == "E0":
            return server_frame(0, 2, b"") + server_frame(1, 0, p), [("on_data", (p, 2, True)), ("on_message", (p,))]
        if kind == "E1":
            sx.assume(sx.And(p[0] < 128, p[1] < 128))
            return server_frame(0, 1, b"") + server_frame(1, 0, p), [("on_data", (sx.text_of(p), 1, True)), ("on_message", (sx.text_of(p),))]
        if kind == "E2":
            return (server_frame(0, 2, b"") + server_frame(0, 0, b"") + server_frame(1, 0, p),
                    [("on_data", (p, 2, True)), ("on_message", (p,))])
        return server_frame(0, 2, b"") + server_frame(1, 0, b""), [("on_data", (b"", 2, True)), ("on_message", (b"",))]
    if kind in ("L", "M"):  # a large binary message: more than one 16 KiB read (L) / a 16-bit length (M); 2 symbolic bytes, rest fixed
        p = sx.sym_bytes("e%d" % i, 2) + bytes((7 * j) & 255 for j in range(16390 if kind == "L" else 300))
        return server_frame(1, 2, p), [("on_data", (p, 2, True)), ("on_message", (p,))]
    if kind == "P":
        p = sx.sym_bytes("e%d" % i, 1)
        return server_frame(1, 9, p), [("on_ping", (p,))]
    if kind == "O":
        p = sx.sym_bytes("e%d" % i, 1)
        return server_frame(1, 10, p), [("on_pong", (p,))]
    raise AssertionError(kind)


def _args_equal(got, exp):
    if len(got) != len(exp):
        return False
    conds = []
    for g, e in zip(got, exp):
        if isinstance(e, bool):
            conds.append(g is e or g == e)
        else:
            conds.append(g == e)
    return sx.And(conds)


def e_hist(kinds, groups, tls=False, mask=None, raise_at=None, split_frag=False, gapmax=8):
    """kinds: event kinds; groups: for every event after the first, 1 = same TCP segment as the previous one, 0 = own
    segment after a symbolic gap.  mask: which callbacks are set (None = all but on_cont_message).  raise_at: index into
    the expected callback list of the callback that raises."""
    names_all = ["on_open", "on_message", "on_data", "on_ping", "on_pong", "on_error", "on_close"]
    if mask is None:
        names = list(names_all)
    else:
        names = [n for j, n in enumerate(names_all) if (mask >> j) & 1]
    segments = []  # list of [bytes, [expected callbacks]]
    for i, kd in enumerate(kinds):
        wire, exp = _frames(kd, i)
        if split_frag and kd == "F":
            # the two fragments arrive in different segments: the message completes with the second one
            n1 = 3
            segments.append([wire[:n1], []])
            segments.append([wire[n1:], exp])
            continue
        if i and groups[i - 1]:
            segments[-1][0] = segments[-1][0] + wire
            segments[-1][1] = segments[-1][1] + exp
        else:
            segments.append([wire, exp])
    script, arrivals, t = [], [], 0
    for j, (wire, exp) in enumerate(segments):
        gap = sx.sym_real("g%d" % j)
        sx.assume(sx.And(gap > 0, gap < gapmax))
        script.append((gap, wire))
        t = t + gap
        arrivals.append(t)
    script.append((1, close_frame(1000)))
    expected = [("on_open", 0, ())]
    for (wire, exp), at in zip(segments, arrivals):
        for name, args in exp:
            expected.append((name, at, args))
    raise_in = None
    if raise_at is not None:
        ra = [e for e in expected if e[0] in names]
        if raise_at >= len(ra):
            sx.assume(False)
        nm = ra[raise_at][0]
        raise_in = (nm, sum(1 for e in ra[:raise_at] if e[0] == nm))
    run = AppRun([{"script": script}], url="wss://h.example/x" if tls else "ws://h.example/x", callbacks=names,
                 raise_in=raise_in, tls=tls)
    run.run()
    sx.require(run.exc is None, "run_forever raised %s" % type(run.exc).__name__)
    got = [t for t in run.trace if t[0] not in ("on_close",)]
    exp_seen = [e for e in expected if e[0] in names]
    # drop the ending (server close -> possibly on_error); compare the prefix that belongs to the history
    errs_expected = 1 if (raise_in is not None and "on_error" in names) else 0
    body = []
    errors = []
    for t in got:
        if t[0] == "on_error":
            errors.append(t)
        else:
            body.append(t)
    sx.require(len(body) == len(exp_seen), "every event reaches its callback exactly once (count)", got=len(body), exp=len(exp_seen),
               kinds="".join(kinds), groups=str(groups), tls=tls)
    for j, (g, e) in enumerate(zip(body, exp_seen)):
        sx.require(g[0] == e[0], "callbacks fire in the order the events were sent", j=j, got=g[0], exp=e[0], kinds="".join(kinds),
                   groups=str(groups), tls=tls)
        if g[0] != e[0]:
            return
        sx.require(_args_equal(g[2], e[2]), "callback arguments (payload; text as str, binary as bytes; type; final flag)", j=j,
                   name=e[0], kinds="".join(kinds))
        sx.require(g[1] == run.k.t0 + e[1], "callback fires when the bytes of its frame arrive, without waiting for later traffic",
                   j=j, name=e[0], kinds="".join(kinds), groups=str(groups), tls=tls)
    if raise_in is not None and "on_error" in names:
        user_errs = [t for t in errors if isinstance(t[2][0], RuntimeError)]
        sx.require(len(user_errs) == 1, "an exception raised by a callback is reported to on_error once", got=len(user_errs))
        cover("raised")
    pongs = [f for f in _client_frames(run) if f[2] == 10]
    sx.require(len(pongs) == sum(1 for kd in kinds if kd == "P"), "one pong written per ping")
    cover("hist")
    if tls:
        cover("tls")
    if any(groups):
        cover("burst")


def _client_frames(run):
    from .common import decode_client_frames
    wire = b""
    for (_, _, d) in run.net.client_frames:
        wire = wire + d
    return [f for f in decode_client_frames(wire) if f[0] != "TRUNCATED"]


def e_reconnect(lost, with_on_reconnect, tls=False):
    """delivery across a reconnection: the first connection delivers a message and is lost; run_forever(reconnect=...) connects again;
    the second connection's opening is announced (on_reconnect, or on_open when no on_reconnect callback is set) BEFORE its messages,
    every message is delivered once, in order"""
    a, b = sx.sym_bytes("a", 1), sx.sym_bytes("b", 2)
    first = {"script": [(1, server_frame(1, 2, a)), (1, "EOF" if lost == "eof" else "RESET")]}
    second = {"script": [(1, server_frame(1, 2, b)), (1, close_frame(1000))]}
    names = ["on_open", "on_message", "on_data", "on_error", "on_close"] + (["on_reconnect"] if with_on_reconnect else [])
    run = AppRun([first, second], url="wss://h.example/x" if tls else "ws://h.example/x", callbacks=names, tls=tls, step_budget=3000)
    run.run(reconnect=2)
    sx.require(run.exc is None, "run_forever raised %s" % type(run.exc).__name__)
    got = [(t[0], t[2]) for t in run.trace if t[0] not in ("on_close", "on_error")]
    second_open = "on_reconnect" if with_on_reconnect else "on_open"
    exp = [("on_open", ()), ("on_data", (a, 2, True)), ("on_message", (a,)), (second_open, ()), ("on_data", (b, 2, True)), ("on_message", (b,))]
    sx.require([g[0] for g in got] == [e[0] for e in exp],
               "across a reconnection: on_open, first connection's message, then %s BEFORE the second connection's message" % second_open,
               got=str([g[0] for g in got]), lost=lost, with_on_reconnect=with_on_reconnect)
    if [g[0] for g in got] == [e[0] for e in exp]:
        for j, (g, e) in enumerate(zip(got, exp)):
            sx.require(_args_equal(g[1], e[1]), "callback arguments across a reconnection", j=j, name=e[0])
    cover("reconnect")


def obligations(tier):
    thorough = tier == "thorough"
    hist = []
    emax = 4 if thorough else 3
    for e in range(1, emax + 1):
        for kinds in itertools.product(KINDS, repeat=e):
            if e == 4 and len(set(kinds)) < 3:
                continue
            for groups in itertools.product((0, 1), repeat=e - 1):
                for tls in (False, True):
                    if e == emax and tls and not thorough and sum(groups) == 0:
                        continue
                    hist.append(dict(kinds=list(kinds), groups=list(groups), tls=tls))
    for tls in (False, True):
        hist.append(dict(kinds=["G"], groups=[], tls=tls))
        hist.append(dict(kinds=["T", "G", "B"], groups=[1, 0], tls=tls))
        hist.append(dict(kinds=["G", "P", "G"], groups=[0, 1], tls=tls))
        hist.append(dict(kinds=["F"], groups=[], tls=tls, split_frag=True))
        for ek in ("E0", "E1", "E2", "E3"):  # fragmented messages with empty fragments (round 7)
            hist.append(dict(kinds=[ek], groups=[], tls=tls))
            hist.append(dict(kinds=["T", ek, "B"], groups=[1, 0], tls=tls))
        for big in ("L", "M"):  # frames that follow a large frame in the same segment / record are not left waiting
            hist.append(dict(kinds=[big, "T"], groups=[1], tls=tls))
            hist.append(dict(kinds=[big, "P", "B"], groups=[1, 1], tls=tls))
            hist.append(dict(kinds=["T", big, "O"], groups=[1, 1], tls=tls))
        hist.append(dict(kinds=["P", "F", "T"], groups=[1, 1], tls=tls, split_frag=True))
    if thorough:
        # arrival gaps up to 25 s: the loop's 10 s select timeout falls inside them (more ordering classes per history)
        for e in (1, 2):
            for kinds in itertools.product(KINDS, repeat=e):
                for tls in (False, True):
                    hist.append(dict(kinds=list(kinds), groups=[0] * (e - 1), tls=tls, gapmax=25))
    subset = []
    for kinds, groups in ((["T", "P", "B"], [1, 0]), (["O", "F"], [0]), (["B", "T", "O", "P"], [1, 1, 1])):
        for mask in range(0, 128):
            subset.append(dict(kinds=kinds, groups=groups, mask=mask, tls=(mask % 2 == 1)))
    rais = []
    for kinds, groups, ncb in ((["T", "P", "B"], [1, 0], 6), (["B", "O", "T"], [1, 1], 6), (["F", "P"], [0], 4)):
        for at in range(0, ncb):
            for tls in (False, True):
                rais.append(dict(kinds=kinds, groups=groups, raise_at=at, tls=tls))
        # the same with NO on_error callback set: a raising callback still does not stop the delivery of later events
        for at in range(0, ncb - 1):
            rais.append(dict(kinds=kinds, groups=groups, raise_at=at, tls=False, mask=127 - 32))
    return [
        Obligation("E-hist", e_hist, hist,
                   bounds="all server histories of <=%d events over {text, binary, 2-fragment message, ping, pong}, every grouping of consecutive "
                          "frames into TCP segments / TLS records, symbolic payloads, arrival gaps solver reals in (0,8); plain and TLS dispatcher; plus bursts that start with a 16392-byte / 302-byte "
                          "binary message; plus fragmented text / binary messages whose first, middle or all fragments are empty" % emax,
                   must_cover=["hist", "tls", "burst"], budget_s=2400 if thorough else 1200, step_budget=40000,
                   kernel=["WebSocketApp.run_forever", "setSock", "read", "_callback", "Dispatcher.read", "SSLDispatcher.read", "SSLDispatcher.select",
                           "WebSocket.recv_data_frame", "WebSocket.connect", "handshake"]),
        Obligation("E-reconnect", e_reconnect, [dict(lost=l, with_on_reconnect=w, tls=t) for l in ("eof", "reset") for w in (False, True) for t in (False, True)],
                   bounds="first connection delivers a symbolic message and is lost (end of stream / reset), run_forever(reconnect=2) connects again, the second "
                          "delivers a symbolic message; with and without an on_reconnect callback; plain and TLS", must_cover=["reconnect"], step_budget=40000,
                   kernel=["WebSocketApp.run_forever (reconnect)", "setSock", "handleDisconnect", "_callback"]),
        Obligation("E-subset", e_hist, subset, bounds="every subset of {on_open,on_message,on_data,on_ping,on_pong,on_error,on_close} set, 3 histories",
                   must_cover=["hist"], budget_s=1200, step_budget=40000, kernel=["WebSocketApp._callback", "read"]),
        Obligation("E-raise", e_hist, rais, bounds="each callback invocation of 3 histories raising in turn (plain and TLS), with and without an on_error callback", must_cover=["raised"],
                   budget_s=1200, step_budget=40000, kernel=["WebSocketApp._callback"]),
    ]
