"""C04 — fragmented messages are reassembled in order, undisturbed by control frames."""
import itertools

import bvsym as sx
from bvsym import core
from .envpatch import EnvPatch
from .common import FakeSock, KeySource, Obligation, cover, new_ws, quiet_logging, server_frame

PROPERTY = "C04"
EXPLANATION = ("continuous_frame.validate/add/is_fire/extract and WebSocket.recv_data_frame/recv_data/recv executed on "
               "messages cut into fragments with symbolic payload bytes, symbolic first opcode, and symbolic ping/pong "
               "frames (kind and payload) interleaved in every gap; plus one inductive step of the reassembler from an "
               "ARBITRARY valid state (covers messages of any number of fragments).")
ASSUMPTIONS = ["frames in this harness are individually valid (invalid ones are C05)",
               "A-step: representation invariant of the reassembler between frames: cont_data is None iff no message is in "
               "progress (per-fragment delivery off) / always None (on); recving_frames is the first opcode or None"]


def _excs():
    from websocket._exceptions import (WebSocketConnectionClosedException, WebSocketPayloadException,
                                       WebSocketProtocolException)
    return WebSocketProtocolException, WebSocketPayloadException, WebSocketConnectionClosedException


def a_msgs(shape, gaps, fire, skip, api="recv_data"):
    """shape: list of messages, each a list of fragment lengths; gaps: number of control frames inserted before each
    fragment except the very first (so between fragments and between messages)"""
    quiet_logging()
    Proto, Payload, Closed = _excs()
    stream = b""
    msgs = []
    gi = 0
    ctrl_payloads = []
    for mi, frag_lens in enumerate(shape):
        op = sx.sym_int("op%d" % mi, 2)
        sx.assume(sx.Or(op == 1, op == 2))
        parts = []
        for fi, n in enumerate(frag_lens):
            if mi or fi:
                for c in range(gaps[gi] if gi < len(gaps) else 0):
                    kind = sx.sym_int("c%d_%d" % (gi, c), 1)  # 0 ping, 1 pong
                    cp = sx.sym_bytes("cp%d_%d" % (gi, c), 1)
                    stream = stream + server_frame(1, 9 + kind, cp)
                    ctrl_payloads.append((kind, cp))
                gi += 1
            p = sx.sym_bytes("m%d_%d" % (mi, fi), n)
            parts.append(p)
            stream = stream + server_frame(1 if fi == len(frag_lens) - 1 else 0, op if fi == 0 else 0, p)
        whole = b""
        for p in parts:
            whole = whole + p
        msgs.append((op, parts, whole))
    sock = FakeSock([stream, "eof"])
    ws = new_ws(sock, fire_cont_frame=fire, skip_utf8_validation=skip, get_mask_key=KeySource([b"\0\0\0\0"] * 16))
    for mi, (op, parts, whole) in enumerate(msgs):
        if fire:
            for fi, p in enumerate(parts):
                try:
                    rop, fr = ws.recv_data_frame(False)
                except (sx.Control, sx.ConcreteFailure, sx.ReplayMismatch):
                    raise
                except Exception as e:
                    sx.require(False, "per-fragment delivery raised %s" % type(e).__name__, mi=mi, fi=fi)
                    return
                sx.require(rop == (op if fi == 0 else 0), "fragment opcode sequence is first, cont, cont...", mi=mi, fi=fi)
                sx.require(fr.data == p, "each fragment returned with its own payload", mi=mi, fi=fi)
                sx.require(fr.fin == (1 if fi == len(parts) - 1 else 0), "each fragment returned with its own final flag", mi=mi, fi=fi)
            cover("fragments-delivered")
            continue
        try:
            if api == "recv":
                out = ws.recv()
                rop = None
            else:
                rop, out = ws.recv_data(False)
            ok = True
        except Payload:
            ok = False
        except (sx.Control, sx.ConcreteFailure, sx.ReplayMismatch):
            raise
        except Exception as e:
            sx.require(False, "receive raised %s" % type(e).__name__, mi=mi)
            return
        valid = True if skip else sx.Or(op == 2, sx.utf8_valid(whole))
        sx.require(sx.Iff(ok, valid), "message delivered unless it is ill-formed text (then payload exception)", mi=mi)
        if not ok:
            cover("payload-exc")
            return
        if api == "recv":
            if op == 1:
                sx.require(out == sx.text_of(whole), "recv(): text is the decoding of the concatenation", mi=mi)
            else:
                sx.require(out == whole, "recv(): binary is the concatenation", mi=mi)
        else:
            sx.require(rop == op, "message delivered with the opcode of its first fragment", mi=mi)
            sx.require(out == whole, "message payload is the in-order concatenation of the fragments", mi=mi)
        cover("message-delivered")
    # nothing else is delivered afterwards
    try:
        extra = ws.recv_data(False)
        sx.require(False, "a message is delivered more than once / a phantom message appears")
    except Closed:
        cover("end")
    except Payload:
        sx.require(False, "payload exception after the last message")


def a_step(fire, acc_len, n):
    """one reassembler step from an arbitrary valid state with an arbitrary valid data frame"""
    quiet_logging()
    Proto, Payload, Closed = _excs()
    in_msg = sx.sym_int("in_msg", 1)
    first_op = sx.sym_int("first_op", 2)
    sx.assume(sx.Or(first_op == 1, first_op == 2))
    acc = sx.sym_bytes("acc", acc_len)
    fin = sx.sym_int("fin", 1)
    opcode = sx.sym_int("opcode", 2)
    sx.assume(opcode <= 2)
    payload = sx.sym_bytes("p", n)
    sock = FakeSock([server_frame(fin, opcode, payload), "eof"])
    ws = new_ws(sock, fire_cont_frame=fire, skip_utf8_validation=True)
    cf = sx.unit(ws, "cont_frame")  # the reassembler's state is set directly (inductive step): private attributes
    sx.unit(cf, "recving_frames")
    sx.unit(cf, "cont_data")
    if in_msg == 1:
        cf.recving_frames = first_op
        cf.cont_data = None if fire else [first_op, acc]
    else:
        sx.assume(acc_len == 0)
        cf.recving_frames = None
        cf.cont_data = None
    try:
        rop, fr = ws.recv_data_frame(False)
        res = "delivered"
    except Proto:
        res = "proto"
    except Closed:
        res = "waiting"
    legal = sx.Iff(opcode == 0, in_msg == 1)
    if not legal:
        sx.require(res == "proto", "sequencing violation raises a protocol exception", fire=fire)
        cover("illegal")
        return
    sx.require(res != "proto", "legal frame accepted", fire=fire)
    if fire:
        sx.require(res == "delivered", "per-fragment delivery returns every data frame")
        sx.require(sx.And(rop == opcode, fr.data == payload, fr.fin == fin), "fragment returned as is")
        sx.require(cf.cont_data is None, "no residue kept in per-fragment mode")
    elif fin == 1:
        sx.require(res == "delivered", "final fragment completes the message")
        exp_op = first_op if in_msg == 1 else opcode
        exp = (acc + payload) if in_msg == 1 else payload
        sx.require(rop == exp_op, "opcode of the first fragment")
        sx.require(fr.data == exp, "accumulated payload + this fragment")
        sx.require(cf.cont_data is None, "accumulator cleared after delivery")
    else:
        sx.require(res == "waiting", "non-final fragment is not delivered")
        exp_op = first_op if in_msg == 1 else opcode
        exp = (acc + payload) if in_msg == 1 else payload
        sx.require(cf.cont_data is not None and sx.And(cf.cont_data[0] == exp_op, cf.cont_data[1] == exp),
                   "accumulator holds first opcode and concatenation")
    if fin == 1:
        sx.require(not cf.recving_frames, "idle after the final fragment")
        cover("final")
    else:
        sx.require(cf.recving_frames == (first_op if in_msg == 1 else opcode), "message in progress remembers the first opcode")
        cover("nonfinal")


def _shapes(maxfrag, maxlen, maxmsg):
    frag_shapes = []
    for f in range(1, maxfrag + 1):
        frag_shapes += list(itertools.product(range(0, maxlen + 1), repeat=f))
    out = []
    for m in range(1, maxmsg + 1):
        for combo in itertools.product(frag_shapes, repeat=m):
            out.append([list(c) for c in combo])
    return out


def a_reconnect(lost, fire):
    """connection 1 is lost (end of stream) inside a fragmented message; connect() again on the SAME object: the first message
    of the new connection (two fragments, symbolic) is reassembled from its own fragments only"""
    quiet_logging()
    Proto, Payload, Closed = _excs()
    from .c03 import HandshakeSock
    import websocket._handshake as HS
    from .common import FakeOs
    stale = sx.sym_bytes("o", 2)
    if lost == "between-fragments":
        first = server_frame(0, 2, stale)
    elif lost == "inside-frame":
        first = bytes([0x82, 5]) + stale
    else:
        first = server_frame(0, 1, b"ab") + bytes([0x00, 4]) + stale
    op = sx.sym_int("op", 8)
    sx.assume(sx.Or(op == 1, op == 2))
    p1, p2 = sx.sym_bytes("p", 2), sx.sym_bytes("q", 1)
    second = sx.cat(sx.to_bytes_be(op, 1), bytes([2]), p1, bytes([0x80, 1]), p2)
    ep = EnvPatch()
    ep.urandom(lambda k: bytes(range(k)))
    got = []
    try:
        ws = new_ws(None, fire_cont_frame=fire, skip_utf8_validation=True)
        ws.connect("ws://example.test/a", socket=HandshakeSock(first, []))
        try:
            while True:
                r = ws.recv_data_frame(True)
                if not fire:
                    sx.require(False, "incomplete message delivered", lost=lost)
                    return
        except Closed:
            pass
        if sx.choice("close-between", 2):
            ws.close()
        ws.connect("ws://example.test/a", socket=HandshakeSock(second, []))
        try:
            while True:
                o, fr = ws.recv_data_frame(True)
                got.append((o, fr.data, fr.fin))
        except Closed:
            pass
        except (sx.Control, sx.ConcreteFailure, sx.ReplayMismatch):
            raise
        except Exception as e:
            sx.require(False, "receive on the re-connected object raised %s" % type(e).__name__, lost=lost, fire=fire)
            return
    finally:
        ep.restore()
    if fire:
        sx.require(len(got) == 2, "each fragment of the new connection's message is delivered once", got=len(got), lost=lost)
        if len(got) == 2:
            sx.require(sx.And(got[0][0] == op, got[0][1] == p1, got[0][2] == 0, got[1][0] == 0, got[1][1] == p2, got[1][2] == 1),
                       "fragments of the new connection come as first-opcode then continuation, with their own payload and FIN", lost=lost)
    else:
        sx.require(len(got) == 1, "the new connection's fragmented message is delivered once", got=len(got), lost=lost)
        if len(got) == 1:
            sx.require(sx.And(got[0][0] == op, got[0][1] == sx.cat(p1, p2)),
                       "message after connect() on the same object is the concatenation of ITS fragments with ITS opcode", lost=lost)
    cover("re-assembled")


def a_after_reject(n, frags):
    """an ill-formed text message is rejected; the messages that FOLLOW are reassembled from their own frames only (C02's
    R-after-reject, shared)"""
    from .c02 import r_after_reject
    return r_after_reject(n, frags)


def a_threads(t):
    """two receivers in recv(): a fragmented message is delivered intact to one of them (C12's interleaving query, shared)"""
    from .c12 import w_order_recv
    return w_order_recv(t)


def obligations(tier):
    thorough = tier == "thorough"
    scen = []
    # single message: every cut into <=3 (4) fragments of 0..2 bytes, every gap 0..2 control frames
    for shape in _shapes(4 if thorough else 3, 2, 1):
        ngaps = len(shape[0]) - 1
        if len(shape[0]) == 4 and (sum(shape[0]) > 4 or max(shape[0]) > 1):
            continue  # 4 fragments: payloads of 0..1 bytes each
        for gaps in itertools.product(range(0, 3 if ngaps <= 1 or (thorough and ngaps == 2) else 2), repeat=ngaps):
            for fire, skip in ((False, False), (True, True), (False, True), (True, False)):
                if sum(shape[0]) > 4 and not thorough:
                    continue
                if not skip and sum(shape[0]) > (3 if thorough else 2):
                    continue  # validation on forks per byte class; the UTF-8 decision itself is C06's subject
                if fire and not skip and sum(gaps) > 0:
                    continue
                if thorough and len(shape[0]) == 4 and sum(gaps) > 2:
                    continue
                scen.append(dict(shape=shape, gaps=list(gaps), fire=fire, skip=skip))
    # two (three) messages
    for shape in _shapes(2, 1, 3 if thorough else 2):
        if len(shape) < 2:
            continue
        ngaps = sum(len(m) for m in shape) - 1
        for g in (0, 1):
            scen.append(dict(shape=shape, gaps=[g] * ngaps, fire=False, skip=True))
            if g == 0:
                scen.append(dict(shape=shape, gaps=[g] * ngaps, fire=True, skip=True))
                if sum(sum(m) for m in shape) <= 2:
                    scen.append(dict(shape=shape, gaps=[g] * ngaps, fire=False, skip=False))
    # through recv()
    for shape in ([[1, 1]], [[0, 2, 0]], [[1], [1, 1]]):
        scen.append(dict(shape=shape, gaps=[1] * (sum(len(m) for m in shape) - 1), fire=False, skip=False, api="recv"))
    step = [dict(fire=f, acc_len=a, n=n) for f in (False, True) for a in (0, 1, 3) for n in (0, 1, 2)]
    return [
        Obligation("A-msgs", a_msgs, scen,
                   bounds="1 message in 1..%d fragments of 0..2 symbolic bytes with 0..2 symbolic ping/pong frames in every gap; 2..%d "
                          "consecutive messages of 1..2 fragments; text/binary symbolic; per-fragment delivery and UTF-8 validation on/off" %
                          (4 if thorough else 3, 3 if thorough else 2),
                   must_cover=["message-delivered", "fragments-delivered", "payload-exc", "end"], budget_s=2400 if thorough else 900,
                   kernel=["continuous_frame.validate", "add", "is_fire", "extract", "WebSocket.recv_data_frame", "recv_data", "recv"]),
        Obligation("A-threads", a_threads, [dict(t=2)], bounds="2 receiver threads, a 2-fragment message each; ALL interleavings of read-lock, frame-lock, "
                   "transport-read and reassembler events (C12's query)", must_cover=["order-recv"], solver_timeout_ms=120000,
                   kernel=["WebSocket.recv (read lock)", "frame_buffer.recv_frame (frame lock)"]),
        Obligation("A-reconnect", a_reconnect, [dict(lost=l, fire=f) for l in ("between-fragments", "inside-frame", "inside-second-fragment")
                                                 for f in (False, True)],
                   bounds="connection lost after a non-final fragment / inside a frame / inside a second fragment (2 symbolic stale bytes), "
                          "connect() again on the same object with or without close() in between; new message of 2 fragments (2+1 symbolic "
                          "bytes, opcode symbolic); per-fragment delivery off/on", must_cover=["re-assembled"],
                   kernel=["WebSocket.connect", "WebSocket._recv", "frame_buffer", "continuous_frame"]),
        Obligation("A-after-reject", a_after_reject, [dict(n=n, frags=f) for n in (1, 2, 3) for f in (1, 2)],
                   bounds="ill-formed text message of 1..3 symbolic bytes in 1 or 2 fragments (payload exception), followed by a binary and a text frame",
                   must_cover=["after-reject"], kernel=["continuous_frame.extract", "continuous_frame.add", "recv_data_frame"]),
        Obligation("A-step", a_step, step,
                   bounds="ONE step from an arbitrary valid reassembler state (idle / in message with accumulated 0,1,3 symbolic bytes, first "
                          "opcode symbolic) on an arbitrary data frame (opcode, FIN symbolic, payload 0..2 bytes): inductive, any number of fragments",
                   must_cover=["illegal", "final", "nonfinal"], kernel=["continuous_frame.validate", "add", "is_fire", "extract"]),
    ]
