"""C11 — TLS peers are authenticated by default; only explicit options relax it (as far as the Python side goes)."""
import ssl as _ssl

import bvsym as sx
from bvsym import core
import simnet
from simnet import Kernel, Net, accept_for
from .envpatch import EnvPatch
from .common import Obligation, cover, quiet_logging

PROPERTY = "C11"
EXPLANATION = ("_http.connect / _ssl_socket / _wrap_sni_socket / _tunnel executed for every combination (solver choices) of the "
               "documented sslopt keys, the CA-bundle environment variable, scheme and direct/proxied connection, with the ssl "
               "module replaced in the _http namespace by a recording subclass of the REAL ssl.SSLContext (real attribute semantics, "
               "no handshake): checked are when wrap_socket is called relative to the bytes written, the verify_mode / "
               "check_hostname / CA loading / server_hostname handed to OpenSSL, and that each option changes only its own setting.")
ASSUMPTIONS = simnet.ASSUMPTIONS + [
    "NOT covered (outside this technique): that OpenSSL then rejects an untrusted or mismatching certificate — C code behind FFI and a "
    "live TLS handshake; the claim stops at 'the context handed to OpenSSL demands verification of the right name'",
    "os.environ / os.path.isfile / os.path.isdir are replaced in the _http namespace; CA files are never opened (load_verify_locations is recorded)",
]


class RecCtx(_ssl.SSLContext):
    """real SSLContext (so check_hostname / verify_mode obey CPython's rules) that records instead of touching files or sockets"""

    def __new__(cls, protocol=_ssl.PROTOCOL_TLS_CLIENT, *a, **k):
        self = _ssl.SSLContext.__new__(cls, protocol)
        self.calls = []
        self.protocol_arg = protocol
        return self

    def load_verify_locations(self, cafile=None, capath=None, cadata=None):
        self.calls.append(("load_verify_locations", cafile, capath))

    def load_default_certs(self, purpose=_ssl.Purpose.SERVER_AUTH):
        self.calls.append(("load_default_certs", purpose))

    def load_cert_chain(self, certfile, keyfile=None, password=None):
        self.calls.append(("load_cert_chain", certfile, keyfile, password))

    def set_ciphers(self, c):
        self.calls.append(("set_ciphers", c))

    def wrap_socket(self, sock, **kw):
        if REC.get("preempt") is not None:
            REC["preempt"]()  # a thread may be descheduled on entry to wrap_socket (any bytecode boundary is a preemption point)
        self.calls.append(("wrap_socket", kw.get("server_hostname")))
        REC["wraps"].append(dict(ctx=self, who=REC.get("who", lambda: None)(), server_hostname=kw.get("server_hostname"), sent_before=bytes(sock.sent) if not isinstance(sock.sent, bytes) else sock.sent,
                                 check_hostname=self.check_hostname, verify_mode=self.verify_mode, kw=kw,
                                 calls_at_wrap=list(self.calls)))
        sock.tls = True
        return sock


REC = {"wraps": [], "contexts": [], "preempt": None}


class FakeSSLModule:
    def __init__(self):
        for n in dir(_ssl):
            if not n.startswith("__"):
                setattr(self, n, getattr(_ssl, n))

        def mk(*a, **k):
            c = RecCtx(*a, **k)
            REC["contexts"].append(c)
            return c
        self.SSLContext = mk


class FakeOsMod:
    def __init__(self, real, env, files, dirs):
        self._real = real
        self.environ = env
        outer = self

        class P:
            def __getattr__(self_, k):
                return getattr(real.path, k)

            def isfile(self_, p):
                return p in files

            def isdir(self_, p):
                return p in dirs
        self.path = P()

    def __getattr__(self, k):
        return getattr(self._real, k)


CERT = {"absent": None, "NONE": _ssl.CERT_NONE, "OPTIONAL": _ssl.CERT_OPTIONAL, "REQUIRED": _ssl.CERT_REQUIRED}


def s_cfg(secure, proxied, host="origin.example"):
    """host: the URL's host - a DNS name, an IPv4 literal or a bracketed IPv6 literal (the defaults hold for every kind of host)"""
    quiet_logging()
    bare = host[1:-1] if host.startswith("[") else host
    import os as real_os
    import websocket
    import websocket._http as H
    REC["wraps"].clear()
    REC["contexts"].clear()
    cr = ("absent", "NONE", "OPTIONAL", "REQUIRED")[sx.choice("cert_reqs", 4)]
    ch = ("absent", True, False)[sx.choice("check_hostname", 3)]
    ca = (None, "/ca/file.pem")[sx.choice("ca_certs", 2)]
    cp = (None, "/ca/dir")[sx.choice("ca_cert_path", 2)]
    sh = (None, "alt.example")[sx.choice("server_hostname", 2)]
    env_kind = ("unset", "file", "dir", "neither")[sx.choice("env", 4)]
    extra = ("none", "context", "certfile", "ciphers", "version", "version-tls", "version-tls12")[sx.choice("extra", 7)]
    sslopt = {}
    if cr != "absent":
        sslopt["cert_reqs"] = CERT[cr]
    if ch != "absent":
        sslopt["check_hostname"] = ch
    if ca:
        sslopt["ca_certs"] = ca
    if cp:
        sslopt["ca_cert_path"] = cp
    if sh:
        sslopt["server_hostname"] = sh
    user_ctx = None
    if extra == "context":
        user_ctx = RecCtx()
        sslopt["context"] = user_ctx
    elif extra == "certfile":
        sslopt["certfile"] = "/client.pem"
    elif extra == "ciphers":
        sslopt["ciphers"] = "HIGH"
    elif extra == "version":
        sslopt["ssl_version"] = _ssl.PROTOCOL_TLS_CLIENT
    elif extra == "version-tls":
        sslopt["ssl_version"] = _ssl.PROTOCOL_TLS  # a protocol constant whose context does NOT check host names by default
    elif extra == "version-tls12":
        sslopt["ssl_version"] = _ssl.PROTOCOL_TLSv1_2
    env = {}
    if env_kind != "unset":
        env["WEBSOCKET_CLIENT_CA_BUNDLE"] = {"file": "/env/bundle.pem", "dir": "/env/certs", "neither": "/env/missing"}[env_kind]
    phase = {"n": 0}

    def respond(server, head, key):
        if proxied and phase["n"] == 0:
            phase["n"] = 1
            return (b"HTTP/1.1 200 Connection established\r\n\r\n", "more-http")
        return ("HTTP/1.1 101 Switching Protocols\r\nUpgrade: websocket\r\nConnection: Upgrade\r\nSec-WebSocket-Accept: %s\r\n\r\n" % accept_for(key)).encode()

    k = Kernel(step_budget=3000)
    net = Net(k, [{"respond": respond}])
    simnet.install(k, net)  # tls=False: the real _ssl_socket/_wrap_sni_socket run, on the recording ssl module
    ep = EnvPatch()
    ep.replace(_ssl, FakeSSLModule())
    ep.os_env(env, {"/env/bundle.pem", "/ca/file.pem"}, {"/env/certs", "/ca/dir"})
    opts = dict(sslopt=sslopt)
    if proxied:
        opts.update(http_proxy_host="proxy.example", http_proxy_port=3128)
    ws, err = None, None
    try:
        try:
            ws = websocket.create_connection(("wss" if secure else "ws") + "://" + host + "/chat", timeout=5, **opts)
        except (websocket.WebSocketException, ValueError, _ssl.SSLError) as e:
            err = e
        except (sx.Control, sx.ConcreteFailure, sx.ReplayMismatch):
            raise
        except Exception as e:
            sx.require(False, "connect raised %s" % type(e).__name__, cr=cr, ch=str(ch), extra=extra)
            return
    finally:
        ep.restore()
        k.shutdown()
        simnet.uninstall()
    cfg = dict(cert_reqs=cr, check_hostname=str(ch), ca=str(ca), cp=str(cp), sh=str(sh), env=env_kind, extra=extra, secure=secure, proxied=proxied)
    if host != "origin.example":
        cfg["host"] = host
    wraps = REC["wraps"]
    if not secure:
        sx.require(len(wraps) == 0, "ws:// targets are never wrapped in TLS", **cfg)
        sx.require(ws is not None, "plain connection succeeds", **cfg)
        cover("plain")
        return
    contradictory = (cr == "NONE" and ch is True)
    if contradictory and extra != "context":
        # CERT_NONE together with check_hostname=True is refused by CPython's SSLContext: either outcome of the library is acceptable,
        # as long as nothing was sent in the clear
        for s in net.socks:
            reqs = [r for r in net.requests]
        sx.require(all(not r[2].startswith("GET ") for r in net.requests) or len(wraps) == 1, "no WebSocket request leaves unencrypted", **cfg)
        cover("contradictory")
        return
    sx.require(err is None and ws is not None, "connection set-up failed: %s" % (type(err).__name__ if err else "?"), **cfg)
    sx.require(len(wraps) == 1, "wss:// targets are wrapped in TLS exactly once", got=len(wraps), **cfg)
    if len(wraps) != 1:
        return
    w = wraps[0]
    sent = w["sent_before"]
    if proxied:
        sx.require(sent.startswith(b"CONNECT " + bare.encode() + b":443 HTTP/1.1\r\n") and b"GET " not in sent,
                   "through a proxy only the CONNECT exchange precedes TLS", **cfg)
    else:
        sx.require(len(sent) == 0, "the byte stream is TLS from its first byte (nothing written before wrap_socket)", **cfg)
    sx.require(w["server_hostname"] == (sh or bare), "server_hostname is the URL's host unless the server_hostname option overrides it", **cfg)
    if extra == "context":
        sx.require(w["ctx"] is user_ctx, "a user-supplied context is used as given", **cfg)
        sx.require(user_ctx.calls == [("wrap_socket", sh or bare)], "a user-supplied context is not modified", got=str(user_ctx.calls), **cfg)
        cover("user-context")
        return
    ctx = w["ctx"]
    exp_verify = CERT[cr] if cr != "absent" else _ssl.CERT_REQUIRED
    if cr == "NONE":
        exp_check = False
    else:
        exp_check = True if ch == "absent" else ch
    sx.require(w["verify_mode"] == exp_verify, "certificate verification is required unless cert_reqs relaxes it", got=str(w["verify_mode"]), **cfg)
    sx.require(w["check_hostname"] == exp_check, "host name is checked unless check_hostname=False or CERT_NONE is given", got=str(w["check_hostname"]), **cfg)
    loads = [c for c in ctx.calls if c[0] in ("load_verify_locations", "load_default_certs")]
    if cr == "NONE":
        sx.require(loads == [], "no CA material is needed without verification", got=str(loads), **cfg)
    else:
        eff_ca = ca if ca else ("/env/bundle.pem" if env_kind == "file" else None)
        eff_cp = cp if cp else ("/env/certs" if (env_kind == "dir") else None)
        if eff_ca or eff_cp:
            sx.require(loads == [("load_verify_locations", eff_ca, eff_cp)], "custom CA file/path (option first, else environment) is what is loaded",
                       got=str(loads), **cfg)
        else:
            sx.require(len(loads) == 1 and loads[0][0] == "load_default_certs", "default trust store loaded when no CA option is given", got=str(loads), **cfg)
    others = [c for c in ctx.calls if c[0] in ("load_cert_chain", "set_ciphers")]
    exp_others = {"certfile": [("load_cert_chain", "/client.pem", None, None)], "ciphers": [("set_ciphers", "HIGH")]}.get(extra, [])
    sx.require(others == exp_others, "client certificate / ciphers applied only when given", got=str(others), **cfg)
    if cr == "absent" and ch == "absent":
        cover("default-verified")
    cover("tls")


def s_seq(first):
    """a connection with relaxing options followed, in the same process, by a connection with DEFAULT options: the
    second must be verified as strictly as a first one (no option may leak into later connections)"""
    quiet_logging()
    import os as real_os
    import websocket
    import websocket._http as H
    relax = {"certnone": {"cert_reqs": _ssl.CERT_NONE}, "nohost": {"check_hostname": False}, "althost": {"server_hostname": "alt.example"},
             "cafile": {"ca_certs": "/ca/file.pem"}, "optional": {"cert_reqs": _ssl.CERT_OPTIONAL}, "context": None}[first]
    results = []
    for step, sslopt in enumerate([relax, {}]):
        REC["wraps"].clear()
        REC["contexts"].clear()
        if sslopt is None:
            sslopt = {"context": RecCtx()}
            sslopt["context"].check_hostname = False
            sslopt["context"].verify_mode = _ssl.CERT_NONE
        k = Kernel(step_budget=3000)
        net = Net(k, [{}])
        simnet.install(k, net)
        ep = EnvPatch()
        ep.replace(_ssl, FakeSSLModule())
        ep.os_env({}, {"/ca/file.pem"}, set())
        try:
            ws = websocket.create_connection("wss://origin.example/chat", timeout=5, sslopt=dict(sslopt))
            ws.shutdown()
        finally:
            ep.restore()
            k.shutdown()
            simnet.uninstall()
        results.append(dict(REC["wraps"][0]) if REC["wraps"] else None)
    w = results[1]
    sx.require(w is not None, "second connection is wrapped")
    sx.require(w["verify_mode"] == _ssl.CERT_REQUIRED and w["check_hostname"] is True,
               "a later connection with default options is verified by default (options of an earlier connection do not persist)", first=first,
               got="%s/%s" % (w["verify_mode"], w["check_hostname"]))
    sx.require(w["server_hostname"] == "origin.example", "default server_hostname for the later connection", first=first)
    loads = [c for c in w["ctx"].calls if c[0] in ("load_verify_locations", "load_default_certs")]
    sx.require(len(loads) == 1 and loads[0][0] == "load_default_certs", "default trust store for the later connection", first=first, got=str(loads))
    cover("seq")


def s_shared(kind):
    """ONE sslopt dict object used for two wss connections to DIFFERENT hosts (two create_connection calls, or a redirect):
    each connection is verified for its own host and the caller's dict is not modified"""
    quiet_logging()
    import os as real_os
    import websocket
    import websocket._http as H
    REC["wraps"].clear()
    REC["contexts"].clear()
    sslopt = {"check_hostname": True} if kind != "empty" else {}
    snap = dict(sslopt)
    n = [0]

    def respond(server, head, key):
        n[0] += 1
        if kind == "redirect" and n[0] == 1:
            return b"HTTP/1.1 302 Found\r\nLocation: wss://second.example/x\r\n\r\n"
        return ("HTTP/1.1 101 Switching Protocols\r\nUpgrade: websocket\r\nConnection: Upgrade\r\nSec-WebSocket-Accept: %s\r\n\r\n" % accept_for(key)).encode()

    k = Kernel(step_budget=3000)
    net = Net(k, [{"respond": respond}])
    simnet.install(k, net)
    ep = EnvPatch()
    ep.replace(_ssl, FakeSSLModule())
    ep.os_env({}, set(), set())
    try:
        if kind == "redirect":
            ws = websocket.create_connection("wss://first.example/x", timeout=5, sslopt=sslopt)
            ws.shutdown()
        else:
            for host in ("first.example", "second.example"):
                ws = websocket.create_connection("wss://%s/x" % host, timeout=5, sslopt=sslopt)
                ws.shutdown()
    finally:
        ep.restore()
        k.shutdown()
        simnet.uninstall()
    names = [w["server_hostname"] for w in REC["wraps"]]
    sx.require(names == ["first.example", "second.example"], "every connection is verified (and SNI'd) for ITS OWN host, also when one sslopt dict is "
               "shared or a redirect leads to another host", kind=kind, got=str(names))
    sx.require(sslopt == snap, "the caller's sslopt dict is not modified", kind=kind, got=str(sorted(sslopt)))
    cover("shared")


PAIR_CFGS = {
    "default": {}, "nohost": {"check_hostname": False}, "hostTrue": {"check_hostname": True}, "certnone": {"cert_reqs": _ssl.CERT_NONE},
    "optional": {"cert_reqs": _ssl.CERT_OPTIONAL}, "cafile": {"ca_certs": "/ca/file.pem"}, "capath": {"ca_cert_path": "/ca/dir"},
    "althost": {"server_hostname": "alt.example"}, "ciphers": {"ciphers": "HIGH"}, "certfile": {"certfile": "/client.pem"},
    "tls12": {"ssl_version": _ssl.PROTOCOL_TLSv1_2},
}


def _expect(name, host):
    o = PAIR_CFGS[name]
    cr = o.get("cert_reqs", _ssl.CERT_REQUIRED)
    exp = dict(verify_mode=cr, check_hostname=False if cr == _ssl.CERT_NONE else o.get("check_hostname", True),
               server_hostname=o.get("server_hostname", host))
    if cr == _ssl.CERT_NONE:
        exp["loads"] = []
    elif "ca_certs" in o or "ca_cert_path" in o:
        exp["loads"] = [("load_verify_locations", o.get("ca_certs"), o.get("ca_cert_path"))]
    else:
        exp["loads"] = [("load_default_certs", _ssl.Purpose.SERVER_AUTH)]
    exp["others"] = {"certfile": [("load_cert_chain", "/client.pem", None, None)], "ciphers": [("set_ciphers", "HIGH")]}.get(name, [])
    return exp


def _check_wrap(w, name, host, what, **info):
    exp = _expect(name, host)
    sx.require(w is not None, "%s: connection is wrapped in TLS" % what, cfg=name, **info)
    if w is None:
        return
    sx.require(w["verify_mode"] == exp["verify_mode"] and w["check_hostname"] == exp["check_hostname"],
               "%s: verification settings handed to OpenSSL are those of this connection's own options" % what, cfg=name,
               got="%s/%s" % (w["verify_mode"], w["check_hostname"]), exp="%s/%s" % (exp["verify_mode"], exp["check_hostname"]), **info)
    sx.require(w["server_hostname"] == exp["server_hostname"], "%s: server_hostname is this connection's own host" % what, cfg=name,
               got=str(w["server_hostname"]), **info)
    # what was configured on the context up to THIS wrap (a context may legitimately be reused for identical settings)
    calls = w["calls_at_wrap"]
    loads = sorted(set(c for c in calls if c[0] in ("load_verify_locations", "load_default_certs")), key=str)
    sx.require(loads == exp["loads"], "%s: trust material is what this connection's options say" % what, cfg=name, got=str(loads), **info)
    others = sorted(set(c for c in calls if c[0] in ("load_cert_chain", "set_ciphers")), key=str)
    sx.require(others == exp["others"], "%s: client certificate / ciphers only when this connection asked for them" % what, cfg=name,
               got=str(others), **info)


def _connect(websocket, host, name):
    ws = websocket.create_connection("wss://%s/chat" % host, timeout=5, sslopt=dict(PAIR_CFGS[name]))
    ws.shutdown()


def s_pair(a, b):
    """two connections one after the other in the same process, every ordered pair of option sets: each is verified according
    to ITS OWN options (nothing persists from the earlier one, nothing is lost)"""
    quiet_logging()
    import os as real_os
    import websocket
    import websocket._http as H
    REC["wraps"].clear()
    REC["contexts"].clear()
    k = Kernel(step_budget=6000)
    net = Net(k, [{}])
    simnet.install(k, net)
    ep = EnvPatch()
    ep.replace(_ssl, FakeSSLModule())
    ep.os_env({}, {"/ca/file.pem"}, {"/ca/dir"})
    try:
        _connect(websocket, "first.example", a)
        _connect(websocket, "second.example", b)
    finally:
        ep.restore()
        k.shutdown()
        simnet.uninstall()
    wraps = REC["wraps"]
    sx.require(len(wraps) == 2, "each wss connection is wrapped exactly once", got=len(wraps), a=a, b=b)
    if len(wraps) != 2:
        return
    _check_wrap(wraps[0], a, "first.example", "first of two connections", a=a, b=b)
    _check_wrap(wraps[1], b, "second.example", "second of two connections", a=a, b=b)
    cover("pair")


def s_threads(a, b):
    """two threads connect at the same time with different options; either may be descheduled on entry to wrap_socket (solver
    choice): each connection is still verified according to its own options"""
    quiet_logging()
    import os as real_os
    import websocket
    import websocket._http as H
    REC["wraps"].clear()
    REC["contexts"].clear()
    k = Kernel(step_budget=8000)
    net = Net(k, [{}])
    simnet.install(k, net)
    ep = EnvPatch()
    ep.replace(_ssl, FakeSSLModule())
    ep.os_env({}, {"/ca/file.pem"}, {"/ca/dir"})
    pre = {"A": bool(sx.choice("preemptA", 2)), "B": bool(sx.choice("preemptB", 2))}
    first = sx.choice("first", 2)

    def preempt():
        me = k.cur.name
        if pre.get(me):
            pre[me] = False
            k.yield_now()
    REC["preempt"] = preempt
    REC["who"] = lambda: k.cur.name
    k.main.name = "B"
    errs = []

    def run_a():
        try:
            _connect(websocket, "first.example", a)
        except Exception as e:
            errs.append(e)
    try:
        pa = k.spawn(run_a, "A")
        if first == 0:
            k.yield_now()
        _connect(websocket, "second.example", b)
        k.block(lambda: pa.done, None)
    finally:
        REC["preempt"] = None
        REC["who"] = lambda: None
        ep.restore()
        k.shutdown()
        simnet.uninstall()
    sx.require(not errs, "connection in the second thread failed: %s" % (type(errs[0]).__name__ if errs else ""), a=a, b=b)
    wa = [w for w in REC["wraps"] if w["who"] == "A"]
    wb = [w for w in REC["wraps"] if w["who"] == "B"]
    sx.require(len(wa) == 1 and len(wb) == 1, "each wss connection is wrapped exactly once", got="%d/%d" % (len(wa), len(wb)), a=a, b=b)
    if len(wa) != 1 or len(wb) != 1:
        return
    _check_wrap(wa[0], a, "first.example", "thread A", a=a, b=b)
    _check_wrap(wb[0], b, "second.example", "thread B", a=a, b=b)
    cover("threads")


def s_scheme(url, via):
    """URL schemes in unusual spelling (WSS://, Wss://, wSs://): whatever the library decides - refuse the URL, or treat the scheme
    case-insensitively - a URL that spells wss never leads to a WebSocket request in clear text.  via: 'direct' or 'redirect'
    (the URL arrives in the Location header of a 302 answered by a wss:// server)"""
    quiet_logging()
    import websocket
    REC["wraps"].clear()
    REC["contexts"].clear()
    n = [0]

    def respond(server, head, key):
        n[0] += 1
        if via == "redirect" and n[0] == 1:
            return ("HTTP/1.1 302 Found\r\nLocation: %s\r\n\r\n" % url).encode()
        return ("HTTP/1.1 101 Switching Protocols\r\nUpgrade: websocket\r\nConnection: Upgrade\r\nSec-WebSocket-Accept: %s\r\n\r\n" % accept_for(key)).encode()

    k = Kernel(step_budget=4000)
    net = Net(k, [{"respond": respond}])
    simnet.install(k, net)
    ep = EnvPatch()
    ep.replace(_ssl, FakeSSLModule())
    ep.os_env({}, set(), set())
    ws, err = None, None
    try:
        try:
            ws = websocket.create_connection(url if via == "direct" else "wss://first.example/start", timeout=5)
        except (websocket.WebSocketException, ValueError, _ssl.SSLError) as e:
            err = e
        except (sx.Control, sx.ConcreteFailure, sx.ReplayMismatch):
            raise
        except Exception as e:
            sx.require(False, "connect raised %s" % type(e).__name__, url=url, via=via)
            return
    finally:
        ep.restore()
        k.shutdown()
        simnet.uninstall()
    secure = url.lower().startswith("wss:")
    target = "origin.example"
    clear = [r for r in net.requests if ("host: " + target) in r[2].lower() and not net.socks[r[1]].tls]
    if secure:
        sx.require(not clear, "a URL whose scheme spells wss (in any letter case) never produces a WebSocket request in clear text", url=url, via=via,
                   outcome="connected" if ws is not None else type(err).__name__)
        if ws is not None:
            w = [x for x in REC["wraps"] if x["server_hostname"] == target]
            sx.require(len(w) == 1 and w[0]["verify_mode"] == _ssl.CERT_REQUIRED and w[0]["check_hostname"] is True,
                       "if such a URL is accepted the connection is TLS with default verification", url=url, via=via)
    else:
        sx.require(not any(x["server_hostname"] == target for x in REC["wraps"]), "ws targets are never wrapped", url=url, via=via)
    cover("scheme-accepted" if ws is not None else "scheme-refused")


def s_upgrade(port, conn_hdr, hops):
    """a multi-step history: a ws:// connection is answered with a redirect to wss:// on the SAME host and port (the usual
    'upgrade to TLS' redirect); the request for the wss target is never written in clear text and, if the connection is established,
    it went through exactly one wrap with default verification"""
    quiet_logging()
    import websocket
    REC["wraps"].clear()
    REC["contexts"].clear()
    target = "origin.example"
    hp = target if port is None else "%s:%d" % (target, port)
    n = [0]

    def respond(server, head, key):
        n[0] += 1
        if n[0] <= hops:
            extra = "" if conn_hdr is None else "Connection: %s\r\n" % conn_hdr
            scheme = "wss" if n[0] == hops else "ws"
            resp = ("HTTP/1.1 302 Found\r\nLocation: %s://%s/secure%d\r\n%sContent-Length: 0\r\n\r\n" % (scheme, hp, n[0], extra)).encode()
            # an HTTP/1.1 server keeps the connection open after the redirect (unless it said close) and would answer a further request on it
            return resp if conn_hdr == "close" else (resp, "more-http")
        return ("HTTP/1.1 101 Switching Protocols\r\nUpgrade: websocket\r\nConnection: Upgrade\r\nSec-WebSocket-Accept: %s\r\n\r\n" % accept_for(key)).encode()

    k = Kernel(step_budget=4000)
    net = Net(k, [{"respond": respond}])
    simnet.install(k, net)
    ep = EnvPatch()
    ep.replace(_ssl, FakeSSLModule())
    ep.os_env({}, set(), set())
    ws, err = None, None
    try:
        try:
            ws = websocket.create_connection("ws://%s/start" % hp, timeout=5)
        except (websocket.WebSocketException, ValueError, _ssl.SSLError) as e:
            err = e
        except (sx.Control, sx.ConcreteFailure, sx.ReplayMismatch):
            raise
        except Exception as e:
            sx.require(False, "connect raised %s" % type(e).__name__, port=port)
            return
    finally:
        ep.restore()
        k.shutdown()
        simnet.uninstall()
    last = "/secure%d" % hops
    clear = [r for r in net.requests if r[2].startswith("GET " + last + " ") and not net.socks[r[1]].tls]
    sx.require(not clear, "the request for a wss:// redirect target is never written to a transport that was not wrapped (ws -> wss on the same host:port)",
               port=port, conn_hdr=conn_hdr, hops=hops, outcome="connected" if ws is not None else type(err).__name__)
    if ws is not None:
        w = [x for x in REC["wraps"] if x["server_hostname"] == target]
        sx.require(len(w) == 1 and w[0]["verify_mode"] == _ssl.CERT_REQUIRED and w[0]["check_hostname"] is True,
                   "the redirected wss connection is wrapped once, with default verification", port=port, conn_hdr=conn_hdr, got=len(w))
        sx.require(ws.sock is not None and getattr(ws.sock, "tls", False), "the connected object's transport is the wrapped one", port=port)
    cover("upgrade-redirect")


def obligations(tier):
    thr = list(PAIR_CFGS) if tier == "thorough" else ["default", "nohost", "certnone", "althost", "ciphers", "cafile"]
    return [
        Obligation("S-cfg", s_cfg, [dict(secure=s, proxied=p) for s in (False, True) for p in (False, True)] +
                   [dict(secure=True, proxied=p, host=h) for h in ("192.0.2.7", "[2001:db8::1]") for p in ((False, True) if tier == "thorough" else (False,))],
                   bounds="full product: cert_reqs {absent, NONE, OPTIONAL, REQUIRED} x check_hostname {absent, True, False} x ca_certs x ca_cert_path x "
                          "server_hostname x WEBSOCKET_CLIENT_CA_BUNDLE {unset, file, dir, neither} x {no extra, user context, certfile, ciphers, ssl_version = TLS_CLIENT / TLS / TLSv1_2} "
                          "x ws/wss x direct/HTTP proxy (10752 configurations); the wss product also for an IPv4-literal and a bracketed IPv6-literal host",
                   outside=["acceptance/rejection of certificates by OpenSSL (C, FFI, live I/O)"],
                   must_cover=["plain", "tls", "default-verified", "user-context", "contradictory"], budget_s=1800, step_budget=200000,
                   kernel=["_http.connect", "_ssl_socket", "_wrap_sni_socket", "_tunnel", "_get_addrinfo_list"]),
        Obligation("S-upgrade", s_upgrade, [dict(port=p, conn_hdr=c, hops=h) for p in (None, 80, 443, 8443) for c in (None, "keep-alive", "close") for h in (1, 2)],
                   bounds="ws://host[:port] answered by 1..2 redirects ending in wss:// on the SAME host and port (port absent / 80 / 443 / 8443), "
                          "Connection header of the redirect absent / keep-alive / close", must_cover=["upgrade-redirect"], step_budget=200000,
                   kernel=["WebSocket.connect (redirect loop)", "_http.connect", "_http._ssl_socket"]),
        Obligation("S-shared", s_shared, [dict(kind=k) for k in ("two-calls", "empty", "redirect")],
                   bounds="one sslopt dict shared by two connections to different hosts / followed across a wss redirect", must_cover=["shared"],
                   step_budget=200000, kernel=["_http._ssl_socket", "WebSocket.connect (redirect)"]),
        Obligation("S-seq", s_seq, [dict(first=f) for f in ("certnone", "nohost", "althost", "cafile", "optional", "context")],
                   bounds="a relaxing connection (6 kinds) followed by a default connection in the same process", must_cover=["seq"], step_budget=200000,
                   kernel=["_http._ssl_socket", "_wrap_sni_socket"]),
        Obligation("S-scheme", s_scheme, [dict(url=u, via=v) for u in ("WSS://origin.example/chat", "Wss://origin.example/chat", "wSs://origin.example:8443/chat",
                                                                       "wss://origin.example/chat", "WS://origin.example/chat", "ws://origin.example/chat")
                                           for v in ("direct", "redirect")],
                   bounds="scheme spelled wss / WSS / Wss / wSs / WS / ws, given directly or through the Location header of a redirect",
                   must_cover=["scheme-accepted", "scheme-refused"], step_budget=200000, kernel=["_url.parse_url", "_http.connect", "WebSocket.connect (redirect)"]),
        Obligation("S-pair", s_pair, [dict(a=a, b=b) for a in PAIR_CFGS for b in PAIR_CFGS],
                   bounds="every ordered pair of 11 option sets (default, check_hostname False/True, CERT_NONE, CERT_OPTIONAL, ca_certs, ca_cert_path, "
                          "server_hostname, ciphers, certfile, ssl_version) used for two successive connections to different hosts in one process",
                   must_cover=["pair"], step_budget=200000, kernel=["_http._ssl_socket", "_wrap_sni_socket"]),
        Obligation("S-threads", s_threads, [dict(a=a, b=b) for a in thr for b in thr if a != b], required=False,
                   bounds="two threads connecting concurrently with different option sets (%d ordered pairs); which thread starts first and whether "
                          "each is descheduled on entry to wrap_socket are solver choices (8 schedules per pair); switches otherwise only at "
                          "blocking operations" % (len(thr) * (len(thr) - 1)),
                   outside=["preemption at other bytecode boundaries"],
                   must_cover=["threads"], step_budget=200000, kernel=["_http._ssl_socket", "_wrap_sni_socket"]),
    ]
