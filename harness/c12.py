"""C12 — each send puts one intact frame on the wire under partial writes and threads."""
import itertools
import threading

import bvsym as sx
from bvsym import core
from .common import FakeSock, KeySource, Obligation, cover, new_ws, quiet_logging, ref_encode, server_frame

PROPERTY = "C12"
EXPLANATION = ("W-short: WebSocket.send_frame/_send/_socket.send executed with SYMBOLIC short-write counts (every count "
               "1..remaining at every write) and symbolic payload/key; the concatenation of the accepted pieces is compared "
               "with the reference encoding.  W-order: the lock/transport event trace of one real send_frame (resp. recv) call "
               "is extracted by executing the code with recording locks; z3 is then asked for ANY interleaving of t copies of "
               "that trace (integer positions, program order, mutual exclusion per lock) in which a write of one thread lies "
               "between two writes of another (resp. a receiver touches the shared reassembler inside another receiver's "
               "message); unsat = no schedule at lock granularity can interleave.")
ASSUMPTIONS = ["socket.send on non-empty data returns at least 1",
               "W-order: threading.Lock semantics are modelled (mutual exclusion of critical sections on the same lock object); "
               "schedules finer than lock/transport/reassembler events and CPython-level data races are outside the claim",
               "enable_multithread=True (default)"]


def w_short(n, nwrites, via=None):
    """send of an n-byte symbolic binary payload; the transport accepts symbolic counts.  nwrites=0: unbounded
    number of writes (every composition of the frame length)"""
    quiet_logging()
    payload = sx.sym_bytes("p", n)
    key = sx.sym_bytes("k", 4)
    exp = ref_encode(1, 2, payload, key)
    F = len(exp)
    accept = []
    rem = F
    j = 0
    while rem > 0 and (nwrites == 0 or j < nwrites - 1):
        a = sx.choice("w%d" % j, rem) + 1  # 1..rem
        accept.append(a)
        rem -= a
        j += 1
    sock = FakeSock(accept=accept)
    ws = new_ws(sock, via=via, get_mask_key=KeySource([key]))
    try:
        ret = ws.send_binary(payload)
    except (sx.Control, sx.ConcreteFailure, sx.ReplayMismatch):
        raise
    except Exception as e:
        sx.require(False, "send raised %s under short writes" % type(e).__name__, n=n, via=str(via))
        return
    wire = sock.wire()
    sx.require(len(wire) == F, "total bytes accepted == frame length (nothing dropped, nothing repeated)", n=n, got=len(wire))
    sx.require(wire == exp, "bytes written under short writes are exactly one complete frame", n=n)
    sx.require(ret == F, "return value is the frame length", n=n)
    sx.require(all(c > 0 for c in sock.send_calls), "no empty write", n=n)
    cover("short")
    if len(sock.send_calls) > 1:
        cover("multi-write")


# ------------------------------------------------------------------------------------------------ W-order
class RecLock:
    """recording stand-in for threading.Lock during trace extraction; with fail_timed=True an acquisition that carries a
    timeout (or is non-blocking) fails, as it can when another thread holds the lock"""

    def __init__(self, name, trace, fail_timed=False):
        self.name, self.trace, self.held, self.fail_timed = name, trace, False, fail_timed

    def acquire(self, *a, **k):
        timed = (len(a) > 0 and a[0] is False) or (len(a) > 1 and a[1] is not None and a[1] >= 0) or \
                (k.get("blocking") is False) or (k.get("timeout") is not None and k.get("timeout", -1) >= 0)
        if timed and self.fail_timed:
            self.trace.append(("acq-failed", self.name))
            return False
        self.trace.append(("acq", self.name))
        self.held = True
        return True

    def release(self):
        self.trace.append(("rel", self.name))
        self.held = False

    def __enter__(self):
        self.acquire()

    def __exit__(self, *a):
        self.release()


class TraceSock(FakeSock):
    def __init__(self, trace, **kw):
        FakeSock.__init__(self, **kw)
        self.trace = trace

    def send(self, data):
        self.trace.append(("w",))
        return FakeSock.send(self, data)

    def recv(self, n):
        self.trace.append(("r",))
        return FakeSock.recv(self, n)


def _posvars(tid, n):
    """solver variables: position of each event of thread `tid` in the global order"""
    if sx.mode() == "concrete":
        return [int(core._conc_get("pos_%d_%d" % (tid, i))) for i in range(n)]
    import z3
    out = []
    for i in range(n):
        v = z3.Int("pos_%d_%d" % (tid, i))
        core.CTX.inputs["pos_%d_%d" % (tid, i)] = v
        out.append(v)
    return out


def _order_constraints(traces, pos):
    """program order, distinct positions, mutual exclusion per lock name (z3 formula list)"""
    import z3
    cs = []
    allp = [p for ps in pos for p in ps]
    total = len(allp)
    cs += [z3.And(p >= 0, p < total) for p in allp]
    cs.append(z3.Distinct(allp))
    for ps in pos:
        for a, b in zip(ps, ps[1:]):
            cs.append(a < b)
    # critical sections
    secs = []
    for t, tr in enumerate(traces):
        open_ = {}
        for i, ev in enumerate(tr):
            if ev[0] == "acq":
                open_[ev[1]] = i
            elif ev[0] == "rel":
                secs.append((t, ev[1], open_.pop(ev[1]), i))
    for (t1, l1, a1, r1), (t2, l2, a2, r2) in itertools.combinations(secs, 2):
        if t1 != t2 and l1 == l2:
            cs.append(z3.Or(pos[t1][r1] < pos[t2][a2], pos[t2][r2] < pos[t1][a1]))
    return cs


class Sched:
    """forces real threads through a given global order of (thread, event index)"""

    def __init__(self, order):
        self.order = order
        self.cur = 0
        self.cv = threading.Condition()
        self.counters = {}
        self.failed = None

    def step(self, tid):
        with self.cv:
            idx = self.counters.get(tid, 0)
            self.counters[tid] = idx + 1
            ok = self.cv.wait_for(lambda: self.failed or (self.cur < len(self.order) and self.order[self.cur] == (tid, idx)), timeout=10)
            if not ok or self.failed:
                self.failed = self.failed or "schedule stuck at %d waiting for %r" % (self.cur, (tid, idx))
                self.cv.notify_all()
                raise RuntimeError(self.failed)
            self.cur += 1
            self.cv.notify_all()


class SchedLock:
    def __init__(self, name, sched, tid_of):
        self.name, self.sched, self.tid_of = name, sched, tid_of
        self.real = threading.Lock()

    def acquire(self, *a, **k):
        self.sched.step(self.tid_of())
        if not self.real.acquire(timeout=10):
            raise RuntimeError("schedule violates mutual exclusion")
        return True

    def release(self):
        self.sched.step(self.tid_of())
        self.real.release()

    def __enter__(self):
        self.acquire()

    def __exit__(self, *a):
        self.release()


def _locks_of(ws):
    """(owner, attribute, path) of every lock object reachable from the WebSocket object in at most two attribute steps -
    found by what they ARE, not by what the attributes are called"""
    def is_lock(v):
        return hasattr(v, "acquire") and hasattr(v, "release") and not hasattr(v, "wait") and not hasattr(v, "notify")
    out = []
    for k, v in list(vars(ws).items()):
        if is_lock(v):
            out.append((ws, k, k))
        elif (getattr(type(v), "__module__", "") or "").startswith("websocket") and isinstance(getattr(v, "__dict__", None), dict):
            for k2, v2 in list(vars(v).items()):
                if is_lock(v2):
                    out.append((v, k2, k + "." + k2))
    return out


def swap_locks(ws, make):
    n = 0
    for owner, attr, path in _locks_of(ws):
        setattr(owner, attr, make(path))
        n += 1
    return n


def w_lockfail(sock_timeout):
    """if the send path acquires its lock with a timeout and the acquisition FAILS (another sender holds it), the call must
    neither write a byte nor release the lock it does not hold"""
    quiet_logging()
    trace = []
    sock = TraceSock(trace)
    sock.timeout = sock_timeout
    ws = new_ws(sock, get_mask_key=KeySource([bytes(4)] * 4))
    ws.settimeout(sock_timeout)
    swap_locks(ws, lambda path: RecLock(path, trace, fail_timed=True))
    try:
        ws.send_binary(b"ab")
    except (sx.Control, sx.ConcreteFailure, sx.ReplayMismatch):
        raise
    except Exception:
        pass
    failed = [ev for ev in trace if ev[0] == "acq-failed"]
    if failed:
        i = trace.index(failed[0])
        L = failed[0][1]
        sx.require(("w",) not in trace[i:], "a sender that failed to get the send lock writes nothing", timeout=str(sock_timeout))
        sx.require(("rel", L) not in trace[i:], "a sender that failed to get the send lock does not release it (it is held by another sender)",
                   timeout=str(sock_timeout))
        cover("timed-acquire")
    else:
        held = [ev[1] for ev in trace if ev[0] == "acq"]
        sx.require(len(held) >= 1 and all(("rel", L) in trace for L in held) and ("w",) in trace,
                   "send lock taken and released around the writes")
        cover("untimed-acquire")


def _extract_send_trace(payload, key, accept):
    trace = []
    sock = TraceSock(trace, accept=list(accept))
    ws = new_ws(sock, get_mask_key=KeySource([key]))
    swap_locks(ws, lambda path: RecLock(path, trace))
    ws.send_binary(payload)
    return trace, sock.wire()


def w_order_send(t, n, nwrites):
    """t threads each send one frame (n-byte payload) under a symbolic short-write pattern; is there a schedule in which
    pieces of two frames interleave?"""
    quiet_logging()
    F = n + 6
    pats = []
    for tid in range(t):
        accept, rem = [], F
        for j in range(nwrites - 1):
            if rem <= 1:
                break
            a = sx.choice("a%d_%d" % (tid, j), rem - 1) + 1
            accept.append(a)
            rem -= a
        pats.append(accept)
    payloads = [bytes([0x10 + tid]) * n for tid in range(t)]
    keys = [bytes([tid + 1, 0, 0, 0]) for tid in range(t)]
    traces, frames = [], []
    for tid in range(t):
        tr, wire = _extract_send_trace(payloads[tid], keys[tid], pats[tid])
        traces.append(tr)
        frames.append(wire)
    pos = [_posvars(tid, len(traces[tid])) for tid in range(t)]
    if sx.mode() != "concrete":
        import z3
        cs = _order_constraints(traces, pos)
        bads = []
        for a in range(t):
            wa = [i for i, ev in enumerate(traces[a]) if ev[0] == "w"]
            for b in range(t):
                if a == b:
                    continue
                wb = [i for i, ev in enumerate(traces[b]) if ev[0] == "w"]
                for i1, i2 in zip(wa, wa[1:]):
                    for k in wb:
                        bads.append(z3.And(pos[a][i1] < pos[b][k], pos[b][k] < pos[a][i2]))
        bad = z3.Or(bads) if bads else z3.BoolVal(False)
        sx.require(core.SymBool(z3.Not(z3.And(z3.And(cs), bad))),
                   "no schedule (all interleavings of lock and write events) puts a piece of one frame between two pieces of another",
                   t=t, nwrites=nwrites)
        cover("order-send")
        if any(len([e for e in tr if e[0] == "w"]) > 1 for tr in traces):
            cover("multi-write-trace")
        return
    # ---- concrete replay: real threads forced through the solver's schedule
    order = sorted(((pos[tid][i], tid, i) for tid in range(t) for i in range(len(traces[tid]))))
    sched = Sched([(tid, i) for _, tid, i in order])
    ident = {}

    def tid_of():
        return ident[threading.get_ident()]

    class SSock(FakeSock):
        def send(self, data):
            sched.step(tid_of())
            k = len(data)
            acc = self.accepts[tid_of()]
            if acc:
                k = min(acc.pop(0), k)
            self.sent.append(bytes(data[:k]))
            return k

    sock = SSock()
    sock.accepts = {tid: list(pats[tid]) for tid in range(t)}
    kq = {tid: [keys[tid]] for tid in range(t)}
    ws = new_ws(sock, get_mask_key=lambda k: kq[tid_of()].pop(0))
    swap_locks(ws, lambda path: SchedLock(path, sched, tid_of))
    errs = []

    def run(tid):
        ident[threading.get_ident()] = tid
        try:
            ws.send_binary(payloads[tid])
        except Exception as e:  # noqa
            errs.append(repr(e))

    ths = [threading.Thread(target=run, args=(tid,)) for tid in range(t)]
    for th in ths:
        th.start()
    for th in ths:
        th.join(30)
    if errs:
        raise sx.ReplayMismatch("schedule could not be forced: %s" % errs[:2])
    wire = b"".join(sock.sent)
    serial = any(wire == b"".join(frames[i] for i in perm) for perm in itertools.permutations(range(t)))
    sx.require(serial, "no schedule (all interleavings of lock and write events) puts a piece of one frame between two pieces of another")


def _extract_pong_trace(accept):
    """one recv_data(control_frame=True) call that reads a ping and answers it (short-write pattern `accept` for the pong)"""
    trace = []
    sock = TraceSock(trace, incoming=[server_frame(1, 9, b"pp"), "eof"], accept=list(accept))
    ws = new_ws(sock, get_mask_key=KeySource([bytes([9, 9, 9, 9])]))
    swap_locks(ws, lambda path: RecLock(path, trace))
    ws.recv_data(True)
    return trace, sock.wire()


def w_order_mixed(nwrites):
    """thread A sends a frame in `nwrites` pieces, thread B receives a ping and answers it (pong in 1..2 pieces): can a piece
    of the pong land between two pieces of A's frame (or vice versa)?"""
    quiet_logging()
    n = 2
    F = n + 6
    acc_a, rem = [], F
    for j in range(nwrites - 1):
        if rem <= 1:
            break
        a = sx.choice("a%d" % j, rem - 1) + 1
        acc_a.append(a)
        rem -= a
    acc_b = [sx.choice("b0", 7) + 1] if sx.choice("bsplit", 2) else []
    payload_a, key_a = bytes([0x10]) * n, bytes([1, 0, 0, 0])
    tr_a, frame_a = _extract_send_trace(payload_a, key_a, acc_a)
    tr_b, frame_b = _extract_pong_trace(acc_b)
    traces = [tr_a, tr_b]
    pos = [_posvars(tid, len(traces[tid])) for tid in range(2)]
    if sx.mode() != "concrete":
        import z3
        cs = _order_constraints(traces, pos)
        bads = []
        for a, b in ((0, 1), (1, 0)):
            wa = [i for i, ev in enumerate(traces[a]) if ev[0] == "w"]
            wb = [i for i, ev in enumerate(traces[b]) if ev[0] == "w"]
            for i1, i2 in zip(wa, wa[1:]):
                for k in wb:
                    bads.append(z3.And(pos[a][i1] < pos[b][k], pos[b][k] < pos[a][i2]))
        bad = z3.Or(bads) if bads else z3.BoolVal(False)
        sx.require(core.SymBool(z3.Not(z3.And(z3.And(cs), bad))),
                   "no schedule puts a piece of the automatic pong between two pieces of another thread's frame (or the reverse)", nwrites=nwrites)
        cover("order-mixed")
        return
    # ---- concrete replay with real threads
    order = sorted(((pos[tid][i], tid, i) for tid in range(2) for i in range(len(traces[tid]))))
    sched = Sched([(tid, i) for _, tid, i in order])
    ident = {}

    def tid_of():
        return ident[threading.get_ident()]

    class SSock(FakeSock):
        def send(self, data):
            sched.step(tid_of())
            k = len(data)
            acc = self.accepts[tid_of()]
            if acc:
                k = min(acc.pop(0), k)
            self.sent.append(bytes(data[:k]))
            return k

        def recv(self, n):
            sched.step(tid_of())
            return FakeSock.recv(self, n)

    sock = SSock([server_frame(1, 9, b"pp"), "eof"])
    sock.accepts = {0: list(acc_a), 1: list(acc_b)}
    kq = {0: [key_a], 1: [bytes([9, 9, 9, 9])]}
    ws = new_ws(sock, get_mask_key=lambda k: kq[tid_of()].pop(0))
    swap_locks(ws, lambda path: SchedLock(path, sched, tid_of))
    errs = []

    def run(tid):
        ident[threading.get_ident()] = tid
        try:
            if tid == 0:
                ws.send_binary(payload_a)
            else:
                ws.recv_data(True)
        except Exception as e:  # noqa
            errs.append(repr(e))
            sched.failed = sched.failed or repr(e)
            with sched.cv:
                sched.cv.notify_all()

    ths = [threading.Thread(target=run, args=(tid,)) for tid in range(2)]
    for th in ths:
        th.start()
    for th in ths:
        th.join(30)
    if errs:
        raise sx.ReplayMismatch("schedule could not be forced: %s" % errs[:2])
    wire = b"".join(sock.sent)
    sx.require(wire in (frame_a + frame_b, frame_b + frame_a),
               "no schedule puts a piece of the automatic pong between two pieces of another thread's frame (or the reverse)")


def _extract_recv_trace():
    """one recv() call that returns a 2-fragment text message"""
    trace = []
    stream = server_frame(0, 1, b"a") + server_frame(1, 0, b"b")
    sock = TraceSock(trace, incoming=[stream, "eof"])
    ws = new_ws(sock)
    swap_locks(ws, lambda path: RecLock(path, trace))
    cf = sx.unit(ws, "cont_frame")
    for nm in ("validate", "add", "extract"):
        orig = sx.unit(cf, nm)

        def wrap(*a, _o=orig, _n=nm):
            trace.append(("cf", _n))
            return _o(*a)
        setattr(cf, nm, wrap)
    out = ws.recv()
    return trace, out


def w_order_recv(t):
    """t threads call recv() on one connection: can a receiver's frame read + reassembler access fall inside another
    receiver's message (between its first frame and the completion of the message)?"""
    quiet_logging()
    tr, out = _extract_recv_trace()
    sx.require(out == "ab", "single-threaded reference run delivers the message")
    traces = [list(tr) for _ in range(t)]
    pos = [_posvars(tid, len(tr)) for tid in range(t)]
    first = min(i for i, ev in enumerate(tr) if ev[0] in ("r", "cf"))
    last = max(i for i, ev in enumerate(tr) if ev[0] in ("r", "cf"))
    mids = [i for i, ev in enumerate(tr) if ev[0] in ("r", "cf")]
    if sx.mode() != "concrete":
        import z3
        cs = _order_constraints(traces, pos)
        bads = []
        for a in range(t):
            for b in range(t):
                if a != b:
                    for k in mids:
                        bads.append(z3.And(pos[a][first] < pos[b][k], pos[b][k] < pos[a][last]))
        sx.require(core.SymBool(z3.Not(z3.And(z3.And(cs), z3.Or(bads)))),
                   "no schedule lets a second receiver read from the transport or touch the reassembler inside another receiver's message", t=t)
        cover("order-recv")
        return
    # ---- concrete replay
    order = sorted(((pos[tid][i], tid, i) for tid in range(t) for i in range(len(tr))))
    sched = Sched([(tid, i) for _, tid, i in order])
    ident = {}

    def tid_of():
        return ident[threading.get_ident()]

    stream = b""
    for tid in range(t):
        stream += server_frame(0, 1, b"a") + server_frame(1, 0, b"b")

    class SSock(FakeSock):
        def recv(self, n):
            sched.step(tid_of())
            return FakeSock.recv(self, n)

    sock = SSock([stream, "eof"])
    ws = new_ws(sock)
    swap_locks(ws, lambda path: SchedLock(path, sched, tid_of))
    cf = sx.unit(ws, "cont_frame")
    for nm in ("validate", "add", "extract"):
        orig = sx.unit(cf, nm)

        def wrap(*a, _o=orig):
            sched.step(tid_of())
            return _o(*a)
        setattr(cf, nm, wrap)
    results, errs = {}, []

    def run(tid):
        ident[threading.get_ident()] = tid
        try:
            results[tid] = ws.recv()
        except Exception as e:  # noqa
            results[tid] = "EXC " + type(e).__name__
            sched.failed = sched.failed or "thread %d raised %r" % (tid, e)
            with sched.cv:
                sched.cv.notify_all()

    ths = [threading.Thread(target=run, args=(tid,)) for tid in range(t)]
    for th in ths:
        th.start()
    for th in ths:
        th.join(30)
    sx.require(all(results.get(tid) == "ab" for tid in range(t)),
               "no schedule lets a second receiver read from the transport or touch the reassembler inside another receiver's message")


def w_eagain(n, via=None):
    """one write of the frame is answered with EAGAIN / would-block (the transport has a timeout, so the library waits for
    writability and tries again); before and after it the transport may accept short counts (symbolic): the wire still carries
    exactly one complete frame"""
    quiet_logging()
    import selectors as _selectors
    from .common import ReadySelectors
    from .envpatch import EnvPatch
    payload = sx.sym_bytes("p", n)
    key = sx.sym_bytes("k", 4)
    exp = ref_encode(1, 2, payload, key)
    F = len(exp)
    first = sx.choice("first", F + 1)  # bytes accepted before the would-block (0 = the very first write blocks; F = never reached)
    accept = ([first] if 0 < first < F else []) + (["wouldblock"] if first < F else [])
    rest = F - (first if first < F else 0)
    if first < F and rest > 1:
        accept.append(sx.choice("second", rest) + 1)
    sock = FakeSock(accept=accept)
    sock.timeout = 5
    ep = EnvPatch()
    rs = ReadySelectors()
    ep.replace(_selectors, rs)
    ep.replace(_selectors.DefaultSelector, rs.DefaultSelector)
    try:
        ws = new_ws(sock, via=via, get_mask_key=KeySource([key]))
        try:
            ret = ws.send_binary(payload)
        except (sx.Control, sx.ConcreteFailure, sx.ReplayMismatch):
            raise
        except Exception as e:
            sx.require(False, "send raised %s when a write would block" % type(e).__name__, n=n, first=first)
            return
    finally:
        ep.restore()
    wire = sock.wire()
    sx.require(len(wire) == F, "would-block on one write: total bytes accepted == frame length (nothing repeated, nothing dropped)", n=n,
               first=first, got=len(wire))
    sx.require(wire == exp, "would-block on one write: the wire carries exactly one complete frame", n=n, first=first)
    sx.require(ret == F, "return value is the frame length", n=n)
    cover("eagain")


def w_recv_sched(apis):
    """two threads receiving through the frame lock only (as close() does next to a thread in recv()): every scheduling decision at
    a lock operation / transport read a solver choice; each frame is handed out whole and once (C02's R-threads, shared)"""
    from .c02 import r_threads
    return r_threads(apis)


def w_send_sched(kinds, keymode="callback"):
    """two threads send one frame each on ONE connection at the same time: every scheduling decision at a lock operation, at the
    draw of the mask key (os.urandom releases the GIL; a user callback may block) and before each transport write is a solver
    choice.  The wire carries the two frames whole, one after the other (either order), each the reference encoding of what its
    sender passed in, masked with one of the keys drawn."""
    quiet_logging()
    import os as _os
    import simnet
    from .envpatch import EnvPatch, ModProxy
    k = simnet.Kernel(step_budget=4000, explore_sched=True)
    net = simnet.Net(k, [{}])
    simnet.install(k, net)
    specs = {"bin3": (2, sx.sym_bytes("p", 3)), "bin1": (2, sx.sym_bytes("q", 1)), "ping0": (9, b""), "text2": (1, None), "bin126": (2, None)}
    ka, kb = sx.sym_bytes("ka", 4), sx.sym_bytes("kb", 4)
    keys = [ka, kb]
    draws = []

    def draw(n=4):
        # the key source is a preemption point: whichever sender draws first gets the first key
        k.yield_now()
        key = keys[len(draws)]
        draws.append(n)
        k.yield_now()
        return key

    class YSock(FakeSock):
        def send(self, data):
            k.yield_now()
            return FakeSock.send(self, data)

    def payload_of(kind):
        op, pl = specs[kind]
        if kind == "text2":
            return op, sx.sym_str("t", 2)
        if kind == "bin126":
            return op, bytes(126)
        return op, pl

    errs = []
    ep = EnvPatch()
    try:
        if keymode == "urandom":
            ep.replace(_os.urandom, draw)
            ep.replace(_os, ModProxy(_os, urandom=draw))
            ws = new_ws(YSock())
        else:
            ws = new_ws(YSock(), get_mask_key=draw)
        sock = ws.sock
        sent = {}

        def call(who, kind):
            op, pl = payload_of(kind)
            sent[who] = (op, pl)
            try:
                if op == 9:
                    ws.ping(pl)
                else:
                    ws.send(pl, op)
            except (sx.Control, sx.ConcreteFailure, sx.ReplayMismatch):
                raise
            except Exception as e:
                errs.append("%s: %s" % (who, type(e).__name__))

        pa = k.spawn(lambda: call("A", kinds[0]), "A")
        call("B", kinds[1])
        k.block(lambda: pa.done, None)
    finally:
        k.shutdown()
        simnet.uninstall()
        ep.restore()
    sx.require(not errs, "concurrent senders: a send call failed (%s)" % "; ".join(errs), kinds=str(kinds))
    if errs:
        return
    sx.require(len(draws) == 2 and all(d == 4 for d in draws), "one 4-byte key drawn per frame", got=str(draws))
    wire = sock.wire()

    def enc(who, key):
        op, pl = sent[who]
        if isinstance(pl, (str, bytes)) or not hasattr(pl, "encode"):
            data = pl.encode("utf-8") if isinstance(pl, str) else pl
        else:
            data = pl.encode("utf-8")
        return ref_encode(1, op, data, key)
    cands = [enc(x, k1) + enc(y, k2) for (x, y) in (("A", "B"), ("B", "A")) for (k1, k2) in ((ka, kb), (kb, ka))]
    L = len(cands[0])
    sx.require(len(wire) == L, "two concurrent senders: total bytes on the wire == the two frame lengths", kinds=str(kinds), got=len(wire))
    if len(wire) != L:
        return
    sx.require(sx.Or(*[wire == c for c in cands]),
               "two concurrent senders: the wire carries both frames whole, each exactly as its sender specified (header, key, masked payload), "
               "under every schedule of lock operations, key draws and writes", kinds=str(kinds), keymode=keymode)
    cover("send-sched")


def obligations(tier):
    thorough = tier == "thorough"
    short = [dict(n=n, nwrites=0) for n in range(0, (9 if thorough else 7))]  # frame <= 14 / 12 bytes: all compositions
    short += [dict(n=n, nwrites=3) for n in ((10, 60, 74, 120, 126, 194) if thorough else (10, 40, 74))]
    if thorough:
        short += [dict(n=n, nwrites=4) for n in (20, 34)]
    # the same through the library's Dispatcher / SSLDispatcher objects (the write path of every WebSocketApp connection)
    short += [dict(n=n, nwrites=0, via=v) for n in (0, 2, 5) for v in ("dispatcher", "ssl-dispatcher")]
    short += [dict(n=74, nwrites=3, via=v) for v in ("dispatcher", "ssl-dispatcher")]
    osend = [dict(t=t, n=2, nwrites=w) for t in (2, 3, 4) for w in ((1, 2, 3) if t < 4 or thorough else (1, 2))]
    if not thorough:
        osend = [s for s in osend if not (s["t"] == 3 and s["nwrites"] == 3)]
    orecv = [dict(t=t) for t in (2, 3) + ((4,) if thorough else ())]
    return [
        Obligation("W-short", w_short, short,
                   bounds="ALL short-write patterns (every composition of the frame length) for frames <= %d bytes; all patterns of <=3 writes "
                          "for frames up to %d bytes; payload and key symbolic; plain WebSocket and WebSocket writing through Dispatcher / SSLDispatcher" % (14 if thorough else 12, 200 if thorough else 80),
                   must_cover=["short", "multi-write"], budget_s=2400 if thorough else 900,
                   kernel=["WebSocket.send_frame", "WebSocket._send", "_socket.send", "DispatcherBase.send"]),
        Obligation("W-eagain", w_eagain, [dict(n=n) for n in (0, 1, 3, 125)] + [dict(n=2, via=v) for v in ("dispatcher", "ssl-dispatcher")],
                   bounds="frames of 0, 1, 3, 125 payload bytes; EAGAIN on one write after a symbolic number of accepted bytes (every position), "
                          "short count after it symbolic; socket with a timeout (the library waits for writability and retries)",
                   must_cover=["eagain"], kernel=["_socket.send (would-block retry)", "WebSocket.send_frame"]),
        Obligation("W-recv-sched", w_recv_sched, [dict(apis=a) for a in (("recv_frame", "recv_frame"), ("recv_data_frame", "recv_frame"))],
                   bounds="2 threads, one receive call each (recv_frame / recv_data_frame) on a stream of two symbolic binary frames; every scheduling "
                          "decision at a lock acquire/release and before each transport read is a solver choice",
                   outside=["preemption between two bytecodes not separated by a lock operation or a transport read"],
                   must_cover=["threads"], step_budget=400000, kernel=["frame_buffer.recv_frame (frame lock)", "WebSocket.recv_frame", "recv_data_frame"]),
        Obligation("W-send-sched", w_send_sched,
                   [dict(kinds=kk, keymode=m) for kk in (("bin3", "bin1"), ("bin3", "ping0"), ("text2", "bin3"), ("bin126", "bin1")) for m in ("callback", "urandom")],
                   bounds="2 threads, one send call each (binary 3 / 1 / 126 bytes, text 2 chars, empty ping; payloads and both keys symbolic) on one "
                          "connection; every scheduling decision at a lock acquire/release, around the draw of the mask key (os.urandom or a "
                          "get_mask_key callback) and before each transport write is a solver choice",
                   outside=["preemption between two bytecodes not separated by a lock operation, a key draw or a transport write"],
                   must_cover=["send-sched"], step_budget=400000, kernel=["WebSocket.send / ping / send_frame (send lock)", "ABNF.format", "ABNF._get_masked"]),
        Obligation("W-order-send", w_order_send, osend,
                   bounds="t = 2..4 sender threads, each frame written in 1..3 pieces (symbolic split points), ALL interleavings of the extracted "
                          "lock/write events (no preemption bound)", must_cover=["order-send", "multi-write-trace"], budget_s=1800,
                   solver_timeout_ms=120000, kernel=["WebSocket.send_frame (send lock)"]),
        Obligation("W-order-mixed", w_order_mixed, [dict(nwrites=w) for w in (2, 3)],
                   bounds="a sender (frame in 2..3 pieces, symbolic split) against a receiver answering a ping (pong in 1..2 pieces), ALL interleavings",
                   must_cover=["order-mixed"], solver_timeout_ms=120000, kernel=["WebSocket.send_frame", "recv_data_frame (ping branch)", "WebSocket.pong"]),
        Obligation("W-lockfail", w_lockfail, [dict(sock_timeout=t) for t in (None, 0.5, 5)],
                   bounds="socket timeout None / 0.5 / 5; the send lock refuses every timed or non-blocking acquisition", must_cover=["untimed-acquire"],
                   kernel=["WebSocket.send_frame (send lock)"]),
        Obligation("W-order-recv", w_order_recv, orecv,
                   bounds="t = 2..%d receiver threads in recv(), each message in 2 fragments; ALL interleavings of read-lock, frame-lock, transport-read "
                          "and reassembler events" % (4 if thorough else 3), must_cover=["order-recv"], budget_s=1800, solver_timeout_ms=120000,
                   kernel=["WebSocket.recv (read lock)", "frame_buffer.recv_frame (frame lock)"]),
    ]
