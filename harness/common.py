"""Shared pieces of the E2 harnesses: scripted fake transport, reference RFC 6455 codec written
over the same (possibly symbolic) values, small helpers.  Everything here works unchanged in
concrete (replay) mode."""
import socket as _socket

import bvsym as sx
from bvsym import core
from bvsym.explore import Obligation, cover  # noqa

OPCODES = (0, 1, 2, 8, 9, 10)
OP_CONT, OP_TEXT, OP_BIN, OP_CLOSE, OP_PING, OP_PONG = OPCODES


class Eof(Exception):
    pass


class Spin(Exception):
    """the code under test keeps reading after the transport reported end of stream (no progress possible)"""


class FakeSock:
    """Scripted transport.  `incoming`: list of items, each bytes-like (one transport segment),
    the string "timeout", "eof" or "reset", or an exception instance.  recv(n) returns at most n
    bytes of the current segment.  send() accepts a scripted (possibly symbolic, already decided)
    number of bytes: `accept` is a list of ints; when exhausted everything is accepted."""

    def __init__(self, incoming=(), accept=None, name="s"):
        self.incoming = list(incoming)
        self.accept = list(accept) if accept else []
        self.sent = []  # pieces accepted
        self.send_calls = []  # lengths offered
        self.recv_requests = []
        self.log = []  # ("send", n) / ("recv", n) / ("close",) / ...
        self.closed = False
        self.shut = False
        self.timeout = None
        self.name = name

    # -- socket API used by the library
    def gettimeout(self):
        return self.timeout

    def settimeout(self, t):
        self.log.append(("settimeout", t))
        self.timeout = t

    def fileno(self):
        return 7

    def recv(self, n):
        sx.tick()
        self.log.append(("recv", n))
        self.recv_requests.append(n)
        if self.closed:
            raise AssertionError("recv on closed transport")
        if isinstance(n, int) and n == 0:
            return b""
        if not self.incoming:
            return b""
        c = self.incoming.pop(0)
        if isinstance(c, str):
            if c == "timeout":
                if self.timeout == 0:
                    # a non-blocking transport has no timeouts: "nothing there yet" is EAGAIN
                    import errno
                    raise BlockingIOError(errno.EAGAIN, "Resource temporarily unavailable")
                raise _socket.timeout("timed out")
            if c == "eof":
                self.incoming.insert(0, "eof")
                self.eof_reads = getattr(self, "eof_reads", 0) + 1
                if self.eof_reads > 40:
                    raise Spin("40 reads after end of stream")
                return b""
            if c == "reset":
                raise ConnectionResetError(104, "Connection reset by peer")
            raise AssertionError(c)
        if isinstance(c, BaseException):
            raise c
        if len(c) == 0:
            return self.recv(n)
        if isinstance(n, core.SymInt):
            if n >= len(c):
                k = len(c)
            else:
                k = n.__index__()
        else:
            k = min(n, len(c))
        if k <= 0:
            raise AssertionError("recv size <= 0")
        if k < len(c):
            self.incoming.insert(0, c[k:])
            c = c[:k]
        return c

    def send(self, data):
        sx.tick()
        if self.closed:
            raise AssertionError("send on closed transport")
        n = len(data)
        self.send_calls.append(n)
        if getattr(self, "_at_boundary", True):
            self.frame_starts = getattr(self, "frame_starts", []) + [data[0] if n else None]
        k = n
        if self.accept:
            a = self.accept.pop(0)
            if isinstance(a, str):  # scripted write fault
                self._at_boundary = True
                if a == "timeout":
                    raise _socket.timeout("timed out")
                if a == "wouldblock":  # nothing accepted right now (EAGAIN): the frame position does not move
                    self._at_boundary = getattr(self, "_was_boundary", True)
                    import errno
                    raise BlockingIOError(errno.EAGAIN, "Resource temporarily unavailable")
                raise BrokenPipeError(32, "Broken pipe")
            k = min(a, n)
        self._at_boundary = bool(k == n)
        self._was_boundary = self._at_boundary
        self.sent.append(data[:k])
        self.log.append(("send", k))
        return k

    def sendall(self, data):
        self.send(data)

    def shutdown(self, how):
        self.log.append(("shutdown",))
        self.shut = True

    def close(self):
        self.log.append(("close",))
        self.closed = True

    def pending(self):
        return 0

    def setsockopt(self, *a):
        pass

    # -- helpers
    def wire(self):
        out = b""
        for p in self.sent:
            out = out + p
        return out


def new_ws(sock=None, via=None, **kw):
    """via: None (plain WebSocket), 'dispatcher' / 'ssl-dispatcher': the WebSocket writes through the library's own
    Dispatcher / SSLDispatcher object, as every WebSocket created by WebSocketApp.run_forever does"""
    from websocket._core import WebSocket
    if via:
        import websocket._dispatcher as D
        kw["dispatcher"] = (D.Dispatcher if via == "dispatcher" else D.SSLDispatcher)(None, None)
    ws = WebSocket(**kw)
    if sock is not None:
        ws.sock = sock
        ws.connected = True
    return ws


# ------------------------------------------------------------------ reference codec (RFC 6455 5.2)
def ref_len_field(n, mask_bit):
    """second header byte + extended length for a concrete payload length n"""
    m = 0x80 if mask_bit else 0
    if n <= 125:
        return bytes([m | n])
    if n <= 0xFFFF:
        return bytes([m | 126]) + n.to_bytes(2, "big")
    return bytes([m | 127]) + n.to_bytes(8, "big")


def ref_encode(fin, opcode, payload, key=None):
    """Reference encoder.  fin/opcode may be symbolic; payload/key bytes-like (maybe symbolic);
    key None => unmasked."""
    b0 = (fin << 7) | opcode
    n = len(payload)
    if isinstance(b0, core.SymInt):
        head = sx.mk_bytes([b0 if b0.w <= 8 else core.SymInt(_extract8(b0), 8, False)])
    else:
        head = bytes([b0])
    head = head + ref_len_field(n, key is not None)
    if key is None:
        return head + payload
    masked = [payload[i] ^ key[i % 4] for i in range(n)]
    return head + key + sx.mk_bytes(masked)


def _extract8(v):
    import z3
    return z3.Extract(7, 0, v.t)


def server_frame(fin, opcode, payload=b"", key=None, rsv=0):
    """bytes of a frame as a server would send it (unmasked unless key given); all parts may be symbolic"""
    b0 = (fin << 7) | (rsv << 4) | opcode
    n = len(payload)
    if isinstance(b0, core.SymInt):
        head = sx.mk_bytes([b0])
    else:
        head = bytes([b0])
    head = head + ref_len_field(n, key is not None)
    if key is None:
        return head + payload
    return head + key + sx.mk_bytes([payload[i] ^ key[i % 4] for i in range(n)])


def ref_decode_one(stream, pos=0):
    """Reference decoder on a bytes-like with *concrete structure*: the bytes at the header
    positions may be symbolic but this function forks on them (through ordinary comparisons), so
    use it only after the implementation has already decided the same things, or for oracles in
    which the structure is concrete.  Returns (fin, rsv, opcode, masked, payload, next_pos) or
    None if the stream is too short."""
    n = len(stream)
    if pos + 2 > n:
        return None
    b0, b1 = stream[pos], stream[pos + 1]
    fin = b0 >> 7
    rsv = (b0 >> 4) & 7
    opcode = b0 & 15
    masked = bool((b1 >> 7) == 1)
    lb = b1 & 0x7F
    p = pos + 2
    if lb == 126:
        if p + 2 > n:
            return None
        L = (stream[p] << 8) | stream[p + 1]
        p += 2
    elif lb == 127:
        if p + 8 > n:
            return None
        L = sx.from_bytes_be(stream[p:p + 8])
        p += 8
    else:
        L = lb
    key = None
    if masked:
        if p + 4 > n:
            return None
        key = stream[p:p + 4]
        p += 4
    if isinstance(L, core.SymInt):
        if L > n - p:
            return None
        L = L.__index__()
    if p + L > n:
        return None
    payload = stream[p:p + L]
    if masked:
        payload = sx.mk_bytes([payload[i] ^ key[i % 4] for i in range(L)])
    return fin, rsv, opcode, masked, payload, p + L


def decode_client_frames(wire):
    """decode everything the client wrote (reference decoder); returns list of
    (fin, rsv, opcode, masked, payload)"""
    out, pos = [], 0
    while pos < len(wire):
        r = ref_decode_one(wire, pos)
        if r is None:
            out.append(("TRUNCATED", pos))
            break
        out.append(r[:5])
        pos = r[5]
    return out


class KeySource:
    """stands for os.urandom / a custom mask-key callable; logs every draw"""

    def __init__(self, keys):
        self.keys = list(keys)
        self.draws = []

    def __call__(self, n):
        self.draws.append(n)
        if not self.keys:
            raise AssertionError("more key draws than frames")
        return self.keys.pop(0)


class FakeOs:
    """replacement for the name `os` inside a repo module: urandom is the symbolic key source"""

    def __init__(self, real, urandom):
        self._real = real
        self.urandom = urandom

    def __getattr__(self, k):
        return getattr(self._real, k)


class ReadySelectors:
    """the name `selectors` for FakeSock runs: a transport that reported would-block is ready again at once"""
    EVENT_READ, EVENT_WRITE = 1, 2

    def __init__(self):
        import selectors
        self._real = selectors

    def __getattr__(self, k):
        return getattr(self.__dict__["_real"], k)

    class _Sel:
        def register(self, *a, **k):
            pass

        def unregister(self, *a, **k):
            pass

        def select(self, timeout=None):
            return [1]

        def close(self):
            pass

    def DefaultSelector(self):
        return ReadySelectors._Sel()


def reset_cookie_jar():
    """the process-wide cookie jar of the handshake module starts empty (the engine also puts module-level state back before
    every path; this is for harnesses that connect several times within one path)"""
    import websocket._handshake as HS
    jar = getattr(HS, "CookieJar", None)
    store = getattr(jar, "jar", None)
    if isinstance(store, dict):
        store.clear()


def quiet_logging():
    import logging
    lg = logging.getLogger("websocket")
    lg.propagate = False
    lg.setLevel(logging.CRITICAL + 10)
    for h in list(lg.handlers):
        if not isinstance(h, logging.NullHandler):
            lg.removeHandler(h)
    import websocket._logging as L
    L._traceEnabled = False
