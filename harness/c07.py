"""C07 — every ping is answered exactly once with a pong carrying the same payload, before reading on."""
import itertools

import bvsym as sx
from bvsym import core
from .common import (FakeSock, KeySource, Obligation, cover, decode_client_frames, new_ws, quiet_logging, ref_encode, server_frame)

PROPERTY = "C07"
EXPLANATION = ("The ping branch of WebSocket.recv_data_frame and WebSocket.pong -> send -> send_frame executed on frame "
               "streams with symbolic ping payloads (every length 0..125), symbolic mask keys, pings placed before, "
               "between and inside fragmented messages and mixed with symbolic pongs; the bytes written are decoded "
               "with the reference decoder and compared term by term, and the transport event log is checked for "
               "'pong written before the next read'.")
ASSUMPTIONS = ["transport accepts every byte offered except in the G-one short-write scenarios (all short-write patterns are C12)"]


def _excs():
    from websocket._exceptions import (WebSocketConnectionClosedException, WebSocketPayloadException,
                                       WebSocketProtocolException)
    return WebSocketProtocolException, WebSocketPayloadException, WebSocketConnectionClosedException


def g_one(n, control_frame, logging_on=False, via=None, short=False):
    """single ping with an n-byte symbolic payload followed by a text message"""
    quiet_logging()
    if logging_on:
        import io
        import logging
        import websocket
        websocket.enableTrace(True, handler=logging.StreamHandler(io.StringIO()), level="DEBUG")
    try:
        _g_one(n, control_frame, via, short)
    finally:
        if logging_on:
            import websocket
            websocket.enableTrace(False)
            quiet_logging()


def _g_one(n, control_frame, via=None, short=False):
    Proto, Payload, Closed = _excs()
    p = sx.sym_bytes("p", n)
    key = sx.sym_bytes("k", 4)
    accept = None
    ep = None
    if short == "eagain":  # the first write of the pong would block (EAGAIN); the socket has a timeout, the library waits and retries
        import selectors as _selectors
        from .common import ReadySelectors
        from .envpatch import EnvPatch
        accept = ["wouldblock"]
        ep = EnvPatch()
        rs = ReadySelectors()
        ep.replace(_selectors, rs)
        ep.replace(_selectors.DefaultSelector, rs.DefaultSelector)
    elif short:  # the transport takes the pong in two pieces (symbolic split point)
        accept = [sx.choice("first", 6 + n - 1) + 1]
    sock = FakeSock([server_frame(1, 9, p) + server_frame(1, 1, b"x"), "eof"], accept=accept)
    if short == "eagain":
        sock.timeout = 5
    ws = new_ws(sock, via=via, get_mask_key=KeySource([key, key]))
    try:
        _g_one_body(ws, sock, n, control_frame, p)
    finally:
        if ep is not None:
            ep.restore()


def _g_one_body(ws, sock, n, control_frame, p):
    Proto, Payload, Closed = _excs()
    try:
        op, data = ws.recv_data(control_frame)
    except (sx.Control, sx.ConcreteFailure, sx.ReplayMismatch):
        raise
    except Exception as e:
        sx.require(False, "receive raised %s" % type(e).__name__, n=n)
        return
    if control_frame:
        sx.require(op == 9, "ping reported to the caller when control frames are requested", n=n)
        sx.require(data == p, "reported ping payload", n=n)
    else:
        sx.require(sx.And(op == 1, data == b"x"), "ping is transparent to the message-level caller", n=n)
    frames = decode_client_frames(sock.wire())
    sx.require(len(frames) == 1 and frames[0][0] != "TRUNCATED", "exactly one frame written for one ping", n=n)
    fin, rsv, opcode, masked, payload = frames[0]
    sx.require(sx.And(fin == 1, rsv == 0, opcode == 10), "reply is a final pong frame", n=n)
    sx.require(masked, "reply is masked", n=n)
    sx.require(payload == p, "pong carries the identical payload", n=n)
    cover("one")


def g_stream(shape, control_frame):
    """shape: list of items 'P' ping, 'O' pong, 'T' single text, 'F0' first fragment, 'FC' middle fragment, 'F1' last
    fragment.  Every ping/pong has a symbolic payload (length from the symbolic choice {0,1,2,3,5}); the client's
    replies must be: one pong per ping, same payload, same order, each written before the next transport read."""
    quiet_logging()
    Proto, Payload, Closed = _excs()
    lens = (0, 1, 2, 3, 5)
    stream = b""
    pings = []
    frame_ends = []  # byte offset at which each server frame ends, and whether it is a ping
    nkeys = 0
    for i, it in enumerate(shape):
        if it in ("P", "O"):
            n = lens[sx.choice("l%d" % i, len(lens))]
            pl = sx.sym_bytes("c%d" % i, n)
            stream = stream + server_frame(1, 9 if it == "P" else 10, pl)
            if it == "P":
                pings.append(pl)
                nkeys += 1
        elif it == "T":
            stream = stream + server_frame(1, 1, b"t")
        elif it == "F0":
            stream = stream + server_frame(0, 2, b"a")
        elif it == "FC":
            stream = stream + server_frame(0, 0, b"b")
        elif it == "F1":
            stream = stream + server_frame(1, 0, b"c")
        frame_ends.append((len(stream), it == "P"))
    keys = [sx.sym_bytes("k%d" % j, 4) for j in range(nkeys)]
    sock = FakeSock([stream, "eof"])
    ws = new_ws(sock, get_mask_key=KeySource(list(keys)))
    delivered = 0
    while True:
        try:
            op, data = ws.recv_data(control_frame)
            delivered += 1
            sx.tick()
        except Closed:
            break
        except (sx.Control, sx.ConcreteFailure, sx.ReplayMismatch):
            raise
        except Exception as e:
            sx.require(False, "receive raised %s" % type(e).__name__)
            return
    frames = decode_client_frames(sock.wire())
    sx.require(len(frames) == len(pings), "one frame written per ping, nothing for pongs or data frames",
               got=len(frames), pings=len(pings))
    for j, (fr, pl) in enumerate(zip(frames, pings)):
        sx.require(fr[0] != "TRUNCATED", "complete frame", j=j)
        fin, rsv, opcode, masked, payload = fr
        sx.require(sx.And(fin == 1, rsv == 0, opcode == 10, masked), "reply j is a masked final pong", j=j)
        sx.require(payload == pl, "pongs leave in the order the pings arrived, each with its ping's payload", j=j)
    # ordering w.r.t. reads: walk the transport log; bytes read so far tell which server frames were consumed
    sends, ok, pos = 0, True, 0
    for ev in sock.log:
        if ev[0] == "recv":
            pings_before = sum(1 for end, isping in frame_ends if isping and end <= pos)
            if sends < pings_before:
                ok = False
            n = ev[1]
            pos = min(len(stream), pos + (n if isinstance(n, int) else sx.concrete_value(n)))
        elif ev[0] == "send":
            sends += 1
    sx.require(ok, "each pong is written before any byte after its ping is read")
    cover("stream")
    if pings:
        cover("with-pings")


def g_long(n):
    """ping longer than 125 bytes must not be answered"""
    quiet_logging()
    Proto, Payload, Closed = _excs()
    sock = FakeSock([server_frame(1, 9, bytes(n)), "eof"])
    ws = new_ws(sock)
    try:
        ws.recv_data(True)
        res = "delivered"
    except Proto:
        res = "proto"
    sx.require(res == "proto", "oversized ping rejected")
    sx.require(len(sock.sent) == 0, "nothing written for an oversized ping")
    cover("long")


def g_many(npings, where, control_frame=False):
    """'any number of pings': npings consecutive pings (the first and the last with a symbolic payload byte) before a message or
    between its two fragments, all consumed inside ONE message-level receive call: one pong per ping, same payloads, same order,
    then the message is returned"""
    quiet_logging()
    Proto, Payload, Closed = _excs()
    a, b = sx.sym_bytes("a", 1), sx.sym_bytes("b", 1)
    pings = server_frame(1, 9, a) + server_frame(1, 9, b"") * (npings - 2) + server_frame(1, 9, b)
    m = sx.sym_bytes("m", 2)
    if where == "before":
        stream = pings + server_frame(1, 2, m)
    else:
        stream = server_frame(0, 2, m[:1]) + pings + server_frame(1, 0, m[1:])
    keys = [sx.sym_bytes("k0", 4)] + [bytes(4)] * (npings - 2) + [sx.sym_bytes("k1", 4)]
    sock = FakeSock([stream, "eof"])
    ws = new_ws(sock, get_mask_key=KeySource(list(keys)))
    import sys
    old_limit = sys.getrecursionlimit()
    sys.setrecursionlimit(1000)  # the interpreter's default (the engine raises it for its own term handling): stack use must not grow with the number of frames
    try:
        if control_frame:
            got = None
            for _ in range(npings + 1):
                op, fr = ws.recv_data_frame(True)
                if op in (1, 2):
                    got = (op, fr.data)
                    break
        else:
            got = ws.recv_data()
    except (sx.Control, sx.ConcreteFailure, sx.ReplayMismatch):
        raise
    except BaseException as e:  # RecursionError / MemoryError are not Exceptions' business either: report them
        if isinstance(e, (KeyboardInterrupt, SystemExit)):
            raise
        sys.setrecursionlimit(old_limit)
        sx.require(False, "receive call over %d consecutive pings raised %s" % (npings, type(e).__name__), where=where)
        return
    finally:
        sys.setrecursionlimit(old_limit)
    sx.require(got is not None and sx.And(got[0] == 2, got[1] == m), "the message behind / around the pings is delivered intact", n=npings, where=where)
    exp = ref_encode(1, 10, a, keys[0]) + ref_encode(1, 10, b"", bytes(4)) * (npings - 2) + ref_encode(1, 10, b, keys[-1])
    wire = sock.wire()
    sx.require(len(wire) == len(exp), "exactly one pong per ping (%d pings)" % npings, got=len(wire), exp=len(exp), where=where)
    if len(wire) == len(exp):
        sx.require(wire == exp, "pongs carry the payloads of the pings, in order", n=npings, where=where)
    cover("many")


def g_after_close(n, where, control_frame=False):
    """a multi-step history: the caller has sent its own close frame with send_close() and keeps receiving until the peer's close
    arrives; a ping that arrives in between (before a message / between its two fragments) is a ping received through the
    message-level receive calls like any other: exactly one pong, same payload, before anything else is read"""
    quiet_logging()
    Proto, Payload, Closed = _excs()
    p = sx.sym_bytes("p", n)
    m = sx.sym_bytes("m", 2)
    k0, k1 = sx.sym_bytes("k0", 4), sx.sym_bytes("k1", 4)
    if where == "before":
        stream = server_frame(1, 9, p) + server_frame(1, 2, m)
    else:
        stream = server_frame(0, 2, m[:1]) + server_frame(1, 9, p) + server_frame(1, 0, m[1:])
    sock = FakeSock([stream + server_frame(1, 8, b"\x03\xe8"), "eof"])
    ws = new_ws(sock, get_mask_key=KeySource([k0, k1, bytes(4)]))
    try:
        ws.send_close()
        before = len(sock.wire())
        got = None
        for _ in range(3):
            op, data = ws.recv_data(control_frame)
            if op == 2:
                got = data
                break
    except (sx.Control, sx.ConcreteFailure, sx.ReplayMismatch):
        raise
    except Exception as e:
        sx.require(False, "receive after send_close() raised %s" % type(e).__name__, n=n, where=where)
        return
    sx.require(got is not None and got == m, "the message around / behind the ping is delivered", n=n, where=where)
    wire = sock.wire()[before:]
    exp = ref_encode(1, 10, p, k1)
    sx.require(len(wire) == len(exp), "a ping received after the caller's own send_close() is answered with exactly one pong", n=n, where=where,
               got=len(wire), exp=len(exp))
    if len(wire) == len(exp):
        sx.require(wire == exp, "that pong carries the ping's payload", n=n, where=where)
    cover("after-close")


def g_threads(kind):
    """the automatic pong stays whole on the wire next to a concurrent sender (C12's interleaving queries, shared)"""
    from .c12 import w_order_mixed, w_order_send
    if kind == "send":
        return w_order_send(2, 2, 2)
    return w_order_mixed(2)


def obligations(tier):
    thorough = tier == "thorough"
    one = [dict(n=n, control_frame=cf) for n in range(0, 126) for cf in (False, True)]
    one += [dict(n=n, control_frame=cf, logging_on=True) for n in (0, 1, 2, 4) for cf in (False, True)]  # trace/debug logging on
    # the pong written in two pieces (symbolic split), plain and through Dispatcher / SSLDispatcher (the WebSocketApp write path)
    one += [dict(n=n, control_frame=False, via=v, short=True) for n in (0, 3, 125) for v in (None, "dispatcher", "ssl-dispatcher")]
    one += [dict(n=n, control_frame=False, via=v, short="eagain") for n in (0, 3) for v in (None, "dispatcher")]  # first write of the pong: EAGAIN
    shapes = []
    base = [["P", "T"], ["T", "P", "T"], ["P", "P", "T"], ["O", "P", "T"], ["F0", "P", "F1"], ["F0", "P", "FC", "P", "F1"],
            ["P", "F0", "O", "P", "F1", "P"], ["F0", "O", "F1"], ["T", "O", "T"], ["P", "P", "P"], ["F0", "P", "P", "F1", "T"]]
    if True:
        alphabet = ["P", "O", "T"]
        for k in ((1, 2, 3, 4, 5) if thorough else (1, 2, 3)):
            for combo in itertools.product(alphabet, repeat=k):
                if combo.count("P") <= 3:
                    base.append(list(combo))
        for pos in itertools.product(["", "P", "O", "PP"] if thorough else ["", "P", "O"], repeat=3):
            sh = []
            for frag, ins in zip(("F0", "FC", "F1"), pos):
                sh.append(frag)
                sh += list(ins)
            if sh.count("P") <= 3:
                base.append(sh)
    seen = set()
    for sh in base:
        if tuple(sh) in seen:
            continue
        seen.add(tuple(sh))
        for cf in (False, True):
            shapes.append(dict(shape=sh, control_frame=cf))
    return [
        Obligation("G-one", g_one, one, bounds="one ping of every length 0..125, payload and mask key symbolic; control-frame reporting off/on; pong accepted by the transport in two pieces (plain / Dispatcher / SSLDispatcher) at lengths 0, 3, 125",
                   must_cover=["one"], kernel=["WebSocket.recv_data_frame (ping branch)", "WebSocket.pong", "send", "send_frame", "ABNF.format"]),
        Obligation("G-stream", g_stream, shapes,
                   bounds="%d stream shapes with up to 3 pings before/between/inside fragmented messages, mixed with pongs and data; every "
                          "ping/pong payload symbolic with symbolic length in {0,1,2,3,5}; keys symbolic" % len(seen),
                   must_cover=["stream", "with-pings"], budget_s=1800, kernel=["WebSocket.recv_data_frame", "pong"]),
        Obligation("G-threads", g_threads, [dict(kind="send"), dict(kind="mixed")],
                   bounds="a sender thread (frame in 2 pieces) against another sender, and against a receiver thread answering a ping; ALL interleavings "
                          "of the extracted lock/write events (C12's queries)", must_cover=["order-send", "order-mixed"], solver_timeout_ms=120000,
                   kernel=["WebSocket.send_frame (send lock)", "recv_data_frame (ping branch)", "WebSocket.pong"]),
        Obligation("G-after-close", g_after_close, [dict(n=n, where=w, control_frame=cf) for n in (0, 2, 125) for w in ("before", "inside") for cf in (False, True)],
                   bounds="send_close() by the caller, then a ping (0 / 2 / 125 symbolic bytes) before a message or between its two fragments, then the "
                          "peer's close frame", must_cover=["after-close"], kernel=["WebSocket.send_close", "WebSocket.recv_data_frame (ping branch)", "WebSocket.pong"]),
        Obligation("G-many", g_many, [dict(npings=n, where=w, control_frame=cf) for n in ((50, 400, 1200, 3000) if thorough else (50, 1200)) for w in ("before", "inside")
                                      for cf in (False, True)],
                   bounds="50 / 1200 (thorough: 400, 3000 as well) consecutive pings before a message or between its two fragments, consumed by one "
                          "recv_data() call (or reported one by one); first and last ping payload, their mask keys and the message symbolic",
                   must_cover=["many"], step_budget=400000, kernel=["WebSocket.recv_data_frame (receive loop)", "WebSocket.pong"]),
        Obligation("G-long", g_long, [dict(n=n) for n in (126, 127, 300)], bounds="pings of 126, 127, 300 bytes", must_cover=["long"]),
    ]
