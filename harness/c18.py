"""C18 — the URL alone determines target, port, resource and TLS; all addresses are tried."""
import errno
import itertools
import socket as _socket

import bvsym as sx
from bvsym import core
from bvsym.chrun import ChObligation
import simnet
from simnet import Kernel, Net
from .common import Obligation, cover, quiet_logging

PROPERTY = "C18"
EXPLANATION = ("L-port / L-default (CrossHair, z3 Int+strings): parse_url for EVERY explicit port 1..70000 rendered into the URL, both "
               "schemes.  L-shape (bvsym driver): URLs assembled from solver-chosen catalogue entries (scheme, separator, userinfo, host "
               "form, port form, path, query) through parse_url and through connect() on the fake network, against a hand-written "
               "RFC 3986 authority split.  L-addr (bvsym): _get_addrinfo_list/_open_socket/connect executed for every address-list "
               "length 1..4 with the per-address outcome (accept / refused / unreachable / other error / timeout) a solver choice and "
               "the socket timeout a solver real; the fake network records every socket, its timeout, options, connect and close.")
ASSUMPTIONS = simnet.ASSUMPTIONS + [
    "L-shape: URL strings are concrete per explored path (urllib.parse runs natively); the catalogue product is enumerated "
    "exhaustively through solver choices — this part is an exhaustive finite enumeration, not a symbolic proof over strings",
    "CrossHair instances report wall time only (solver time is not separated)",
]

SCHEMES = ("ws", "wss", "http", "", "WS", "ftp")
SEPS = ("://", ":", ":/", "")
USERINFO = ("", "u@", "u:p@")
HOSTS = ("h.example", "H.Example", "10.1.2.3", "[::1]", "[fe80::1%25eth0]", "")
PORTS = ("", ":", ":1", ":8080", ":65535", ":65536", ":x", ":0")
PATHS = ("", "/", "/a/b", "/a b", "/a;b=1", "/;")
QUERIES = ("", "?", "?q=1", "?a?b")


def _ref_parse(url):
    """reference written from the property's sentence over the URL STRING (RFC 3986 authority split by hand, no urllib);
    returns ('ok', host, port, resource, secure), ('error',) or ('dontcare',) where the statement is silent"""
    if ":" not in url:
        return ("error",)
    scheme, rest = url.split(":", 1)
    if scheme not in ("ws", "wss"):
        return ("error",)
    if not rest.startswith("//"):
        return ("error",)
    rest = rest[2:]
    cut = len(rest)
    for ch in "/?#":
        k = rest.find(ch)
        if k >= 0:
            cut = min(cut, k)
    authority, tail = rest[:cut], rest[cut:]
    if "@" in authority:
        authority = authority.rsplit("@", 1)[1]
    if authority.startswith("["):
        if "]" not in authority:
            return ("dontcare",)
        host, after = authority[1:].split("]", 1)
        if after and not after.startswith(":"):
            return ("dontcare",)
        port = after[1:] if after else None
    elif ":" in authority:
        host, port = authority.rsplit(":", 1)
    else:
        host, port = authority, None
    if host == "":
        return ("error",)
    if port in (None, ""):
        p = 443 if scheme == "wss" else 80
    elif port.isdigit() and port.isascii():
        p = int(port)
        if p > 65535:
            return ("error",)
        if p == 0:
            return ("dontcare",)
    else:
        return ("error",)
    path, query = tail, ""
    if "#" in path:
        return ("dontcare",)
    if "?" in path:
        path, query = path.split("?", 1)
    res = (path if path else "/") + ("?" + query if query else "")
    return ("ok", host.lower(), p, res, scheme == "wss")


def l_shape(scheme_i):
    """parse_url over the catalogue product (scheme fixed per scenario to keep scenarios parallel)"""
    quiet_logging()
    from websocket._url import parse_url
    scheme = SCHEMES[scheme_i]
    sep = SEPS[sx.choice("sep", len(SEPS))]
    ui = USERINFO[sx.choice("userinfo", len(USERINFO))]
    host = HOSTS[sx.choice("host", len(HOSTS))]
    port = PORTS[sx.choice("port", len(PORTS))]
    path = PATHS[sx.choice("path", len(PATHS))]
    query = QUERIES[sx.choice("query", len(QUERIES))]
    url = scheme + sep + ui + host + port + path + query
    exp = _ref_parse(url)
    try:
        got = ("ok",) + tuple(parse_url(url))
    except ValueError:
        got = ("error",)
    except (sx.Control, sx.ConcreteFailure, sx.ReplayMismatch):
        raise
    except Exception as e:
        sx.require(False, "parse_url raised %s" % type(e).__name__, url=url)
        return
    if exp[0] == "dontcare":
        cover("dontcare")
        return
    if exp[0] == "error":
        sx.require(got[0] == "error", "URL outside ws://host / wss://host must be refused with ValueError", url=url, got=str(got))
        cover("refused")
        return
    sx.require(got[0] == "ok", "valid URL refused", url=url)
    if got[0] != "ok":
        return
    sx.require(str(got[1]).lower() == exp[1], "host is the URL's host (IPv6 without brackets)", url=url, got=str(got[1]), exp=exp[1])
    sx.require(got[2] == exp[2], "port is the explicit port, else 80 for ws / 443 for wss", url=url, got=str(got[2]), exp=exp[2])
    sx.require(got[3] == exp[3], "resource is the path ('/' if empty) plus '?query' when there is one", url=url, got=str(got[3]), exp=exp[3])
    sx.require(got[4] == exp[4], "TLS exactly for wss", url=url)
    cover("parsed")


def l_noact(kind):
    """a refused URL causes no network activity; an accepted one is resolved with exactly (host, port) of the URL"""
    quiet_logging()
    import websocket
    url = {"foreign": "http://h.example/", "nosep": "h.example/path", "nohost": "ws:///p", "noslashes": "ws:h.example", "ok": "ws://h.example:81/p?x=1",
           "ok-wss": "wss://[::1]/", "badport": "ws://h.example:99999/"}[kind]
    k = Kernel(step_budget=500)
    net = Net(k, [{"reject": True}], tls=kind == "ok-wss")
    simnet.install(k, net, tls=kind == "ok-wss")
    err = None
    try:
        try:
            websocket.create_connection(url, timeout=3)
        except ValueError as e:
            err = e
        except websocket.WebSocketException as e:
            err = e
    finally:
        k.shutdown()
        simnet.uninstall()
    if kind.startswith("ok"):
        exp = ("h.example", 81) if kind == "ok" else ("::1", 443)
        sx.require(len(net.resolved) == 1 and net.resolved[0][:2] == exp, "resolver asked for exactly the URL's host and port", kind=kind,
                   got=str(net.resolved))
        head = net.requests[0][2] if net.requests else ""
        sx.require(head.startswith("GET " + ("/p?x=1" if kind == "ok" else "/") + " HTTP/1.1"), "request target is the URL's path and query", kind=kind)
        cover("resolved")
    else:
        sx.require(isinstance(err, ValueError), "malformed URL refused with ValueError", kind=kind, got=type(err).__name__)
        sx.require(len(net.resolved) == 0 and len(net.socks) == 0, "refused before any network activity", kind=kind)
        cover("noact")


OUTCOMES = ("accept", "refused", "unreachable", "other", "timeout")


def l_addr(n, nopts):
    """address list of length n, outcome of each entry a solver choice; timeout a solver real"""
    quiet_logging()
    import websocket
    import websocket._http as H
    from websocket._socket import DEFAULT_SOCKET_OPTION, sock_opt
    outs = [OUTCOMES[sx.choice("o%d" % i, len(OUTCOMES))] for i in range(n)]
    timeout = sx.sym_real("timeout")
    sx.assume(sx.And(timeout > 0, timeout < 100))
    user_opts = [(_socket.SOL_SOCKET, _socket.SO_REUSEADDR, 1), (_socket.SOL_TCP, _socket.TCP_NODELAY, 0)][:nopts]
    addrs = [(_socket.AF_INET6 if i % 2 else _socket.AF_INET, _socket.SOCK_STREAM, 6, "", ("10.0.0.%d" % (i + 1), 8080)) for i in range(n)]
    k = Kernel(step_budget=500)
    net = Net(k, [{}], outcomes={i: o for i, o in enumerate(outs)}, addrinfo=addrs)
    simnet.install(k, net)
    so = sock_opt(user_opts, None)
    so.timeout = timeout
    res, err = None, None
    try:
        try:
            res = H.connect("ws://h.example:8080/r", so, H.proxy_info(), None)
        except OSError as e:
            err = e
        except websocket.WebSocketException as e:
            err = e
        except (sx.Control, sx.ConcreteFailure, sx.ReplayMismatch):
            raise
        except Exception as e:
            sx.require(False, "connect raised %s" % type(e).__name__, outs=",".join(outs))
            return
    finally:
        k.shutdown()
        simnet.uninstall()
    what = ",".join(outs)
    # reference: walk the list
    stop, exp_tried, exp_result = None, 0, None
    for i, o in enumerate(outs):
        exp_tried = i + 1
        if o == "accept":
            exp_result = ("sock", i)
            break
        if o in ("other", "timeout"):
            exp_result = ("raise", i)
            break
    if exp_result is None:
        exp_result = ("raise", n - 1)
    sx.require(net.resolved[0][:2] == ("h.example", 8080), "resolver asked for the URL's host and port")
    sx.require(len(net.socks) == exp_tried, "addresses are tried in order until one accepts; refused/unreachable never aborts while others remain",
               outs=what, got=len(net.socks), exp=exp_tried)
    for i, s in enumerate(net.socks):
        sx.require(any(e[0] == "connect" and e[1] == addrs[i][4] for e in s.log), "socket i dials address i", i=i, outs=what)
        tos = [e[1] for e in s.log if e[0] == "settimeout"]
        sx.require(len(tos) >= 1 and tos[0] == timeout, "configured timeout applied to every socket tried", i=i, outs=what)
        for opt in list(DEFAULT_SOCKET_OPTION) + user_opts:
            sx.require(tuple(opt) in [tuple(o) for o in s.opts], "default and user socket options applied to every socket tried", i=i, outs=what,
                       opt=str(opt))
        if exp_result != ("sock", i):
            sx.require(s.closed, "every socket that failed is closed", i=i, outs=what)
    if exp_result[0] == "sock":
        sx.require(res is not None and res[0] is net.socks[exp_result[1]], "the first accepting address is used", outs=what)
        sx.require(res is not None and res[1] == ("h.example", 8080, "/r"), "target tuple handed to the handshake", outs=what)
        sx.require(not net.socks[exp_result[1]].closed, "the accepted socket stays open", outs=what)
        cover("accepted")
    else:
        sx.require(res is None and err is not None, "no address accepted: the last error is raised", outs=what)
        i = exp_result[1]
        exp_errno = {"refused": errno.ECONNREFUSED, "unreachable": errno.ENETUNREACH, "other": errno.EACCES, "timeout": None}[outs[i]]
        sx.require(getattr(err, "errno", None) == exp_errno, "the error raised is the one of the last address tried", outs=what,
                   got=str(getattr(err, "errno", None)))
        cover("all-failed")


def l_again(between, how):
    """the SAME WebSocket object connects, the connection ends (orderly close() with the server answering / close() against a
    silent server / shutdown() / end of stream seen by recv()), and connects again without repeating the options: every socket
    tried by the second connect() (refused first address, accepting second) gets the timeout and socket options that were
    configured, exactly like the first time"""
    quiet_logging()
    import websocket
    from websocket._socket import DEFAULT_SOCKET_OPTION
    from .appcommon import close_frame
    user_opts = [(_socket.SOL_SOCKET, _socket.SO_REUSEADDR, 1)]
    addrs = [(_socket.AF_INET, _socket.SOCK_STREAM, 6, "", ("10.0.0.%d" % (i + 1), 8080)) for i in range(2)]

    def answer_close(server, data):
        if len(data) >= 2 and (data[0] & 0x0F) == 8:
            server.deliver(close_frame(1000))
    spec = {"on_frame_bytes": answer_close} if between == "close-answered" else ({"script": [(1, "EOF")]} if between == "eof" else {})
    k = Kernel(step_budget=3000)
    net = Net(k, [spec, {}], outcomes={0: "accept", 1: "refused", 2: "accept"}, addrinfo=addrs)
    simnet.install(k, net)
    T = 10
    try:
        try:
            if how == "ctor":
                ws = websocket.WebSocket(sockopt=user_opts)
                ws.settimeout(T)
                ws.connect("ws://h.example:8080/r")
            else:
                ws = websocket.WebSocket(sockopt=user_opts)
                ws.connect("ws://h.example:8080/r", timeout=T)
            if between in ("close-answered", "close-silent"):
                ws.close()
            elif between == "shutdown":
                ws.shutdown()
            else:
                try:
                    ws.recv()
                except websocket.WebSocketConnectionClosedException:
                    pass
            ws.connect("ws://h.example:8080/r")
        except (sx.Control, sx.ConcreteFailure, sx.ReplayMismatch):
            raise
        except Exception as e:
            sx.require(False, "connect / close / connect on one object raised %s" % type(e).__name__, between=between, how=how)
            return
    finally:
        k.shutdown()
        simnet.uninstall()
    sx.require(len(net.socks) == 3, "second connect() tries the refused address, then the accepting one", got=len(net.socks), between=between)
    for i, s in enumerate(net.socks):
        tos = [e[1] for e in s.log if e[0] == "settimeout"]
        sx.require(len(tos) >= 1 and tos[0] == T, "the configured timeout is applied to every socket tried, also by a later connect() of the same "
                   "object", i=i, got=str(tos[:1]), exp=T, between=between, how=how)
        for opt in list(DEFAULT_SOCKET_OPTION) + user_opts:
            sx.require(tuple(opt) in [tuple(o) for o in s.opts], "default and user socket options applied to every socket tried, also by a later "
                       "connect()", i=i, between=between, opt=str(opt))
    sx.require(ws.connected and not net.socks[2].closed and net.socks[1].closed, "the second connection is up on the accepting address", between=between)
    cover("again")


def l_redirect(scheme2, port2, path2):
    """after a redirect, target / port / resource / TLS are those of the Location URL (shared with C10 Q-redirect)"""
    from .c10 import q_redirect
    return q_redirect(scheme2, port2, path2)


def obligations(tier):
    thorough = tier == "thorough"
    return [
        ChObligation("L-port", "ch/c18_port.py", "port_rule", timeout_s=240 if thorough else 150,
                     bounds="every explicit port 1..70000 (z3 Int), ws and wss: kept iff <= 65535, ValueError above", kernel=["_url.parse_url"],
                     assumptions=["host/path/query fixed in L-port (varied in L-shape / L-str)"]),
        ChObligation("L-default", "ch/c18_port.py", "default_port_rule", timeout_s=60, bounds="no port / bare colon, ws and wss", kernel=["_url.parse_url"]),
        ChObligation("L-str", "ch/c18_port.py", "path_query_rule", timeout_s=90 if thorough else 40, mode="hunt",
                     bounds="path <= 3 and query <= 2 printable ASCII characters (bug-hunting only: urlparse realises symbolic strings)",
                     kernel=["_url.parse_url"]),
        Obligation("L-shape", l_shape, [dict(scheme_i=i) for i in range(len(SCHEMES))],
                   bounds="catalogue product: scheme %s x separator %s x userinfo %s x host %s x port %s x path %s x query %s (exhaustive)" %
                          (SCHEMES, SEPS, USERINFO, HOSTS, PORTS, PATHS, QUERIES), must_cover=["parsed", "refused"], budget_s=1800,
                   kernel=["_url.parse_url"]),
        Obligation("L-noact", l_noact, [dict(kind=k) for k in ("foreign", "nosep", "nohost", "noslashes", "badport", "ok", "ok-wss")],
                   bounds="4 malformed URL kinds + out-of-range port + 2 valid ones through create_connection on the fake network",
                   must_cover=["noact", "resolved"], step_budget=50000, kernel=["_http.connect", "_http._get_addrinfo_list", "_url.parse_url"]),
        Obligation("L-redirect", l_redirect, [dict(scheme2=s, port2=p, path2=pa) for s in ("ws", "wss") for p in ("", ":9090") for pa in ("", "/new?y=2")],
                   bounds="302 redirect to {ws,wss}://b.example[:9090]{'', '/new?y=2'}: dialled address, request target and Host are the Location's",
                   must_cover=["redirect"], step_budget=100000, kernel=["WebSocket.connect (redirect loop)", "_url.parse_url"]),
        Obligation("L-addr", l_addr, [dict(n=n, nopts=o) for n in (1, 2, 3, 4) for o in ((0, 2) if n < 4 or thorough else (1,))],
                   bounds="address lists of length 1..4, every pattern of {accept, refused, unreachable, other error, timeout}; socket timeout a solver "
                          "real in (0,100); 0..2 user socket options", must_cover=["accepted", "all-failed"], budget_s=1800, step_budget=50000,
                   kernel=["_http.connect", "_get_addrinfo_list", "_open_socket", "_socket.DEFAULT_SOCKET_OPTION"]),
        Obligation("L-again", l_again, [dict(between=b, how=h) for b in ("close-answered", "close-silent", "shutdown", "eof") for h in ("ctor", "connect")],
                   bounds="connect, end (close answered / close unanswered / shutdown / end of stream), connect again on the same object; timeout given "
                          "through settimeout() or connect(timeout=); 2 addresses for the second attempt (refused, accept)",
                   must_cover=["again"], step_budget=100000, kernel=["WebSocket.connect", "WebSocket.close", "WebSocket.shutdown", "_http._open_socket"]),
    ]
