"""C03 — delivery is independent of transport segmentation and survives receive timeouts."""
import base64
import hashlib
import itertools

import bvsym as sx
from bvsym import core
from .envpatch import EnvPatch
from .common import (FakeOs, FakeSock, KeySource, Obligation, cover, decode_client_frames, new_ws, quiet_logging,
                     server_frame)

PROPERTY = "C03"
EXPLANATION = ("frame_buffer.recv_strict executed for ONE step from an arbitrary buffer state with symbolic chunk sizes and "
               "a timeout at an arbitrary point (inductive: covers call histories of any length), and the whole receive "
               "path (handshake head reader, recv_frame stage flags, reassembler, automatic replies) executed on traffic "
               "shapes with symbolic payloads under EVERY partition of the byte stream into transport reads and every "
               "placement of timeouts, compared with the run on the unsegmented stream.")
ASSUMPTIONS = ["S-part/S-hand run with UTF-8 validation off (the validator forks per byte class and is C06's subject; segmentation does not reach it)",
               "transport never raises EAGAIN/SSLWantRead (the selectors fallback in _socket.recv needs a real fd: outside the claim)",
               "after a timeout the caller retries the same call"]

GUID = "258EAFA5-E914-47DA-95CA-C5AB0DC85B11"


def _excs():
    from websocket._exceptions import (WebSocketConnectionClosedException, WebSocketPayloadException,
                                       WebSocketProtocolException, WebSocketTimeoutException)
    return WebSocketProtocolException, WebSocketPayloadException, WebSocketConnectionClosedException, WebSocketTimeoutException


class Timeout(Exception):
    pass


def s_strict(nchunks, bufsize, stream_len):
    """one recv_strict(bufsize) from an arbitrary buffer; transport hands out symbolic-size pieces, may raise once"""
    from websocket._abnf import frame_buffer
    pre = []
    for i in range(nchunks):
        n = sx.choice("bl%d" % i, 4)
        pre.append(sx.sym_bytes("b%d" % i, n))
    stream = sx.sym_bytes("s", stream_len)
    fail_at = sx.choice("fail", stream_len + 2)  # transport call index at which a timeout is raised (last = never)
    state = {"pos": 0, "calls": 0, "reqs": []}

    def recv(n):
        sx.tick()
        state["reqs"].append(n)
        if state["calls"] == fail_at:
            state["calls"] += 1
            raise Timeout()
        state["calls"] += 1
        rem = stream_len - state["pos"]
        if rem == 0:
            raise Timeout()
        k = sx.choice("k%d" % state["calls"], min(rem, 4)) + 1
        if not isinstance(n, int):
            n = n.__index__()
        k = min(k, n)
        out = stream[state["pos"]:state["pos"] + k]
        state["pos"] += k
        return out

    fb = frame_buffer(recv, True)
    sx.unit(fb, "recv_buffer")  # pre-loaded read-ahead buffer: private attribute
    sx.unit(fb, "recv_strict")
    before = b""
    for c in pre:
        before = before + c
    # the private buffer's representation is the tree's own business: a list of chunks (as today) or one flat byte buffer
    # (bytearray / bytes); any other representation makes this unit-level obligation not applicable (the public-API obligations decide)
    from bvsym import shims as _shims
    proto = fb.recv_buffer
    if isinstance(proto, list):
        fb.recv_buffer = list(pre)
    elif isinstance(proto, (bytearray, _shims.SymByteArray)):
        fb.recv_buffer = _shims.SymByteArray(before) if core.MODE != "concrete" else bytearray(before)
    elif isinstance(proto, bytes):
        fb.recv_buffer = before
    else:
        raise sx.UnitMissing("frame_buffer.recv_buffer of type %s" % type(proto).__name__)
    try:
        ret = fb.recv_strict(bufsize)
        raised = False
    except Timeout:
        ret = b""
        raised = True
    after = b""
    if isinstance(fb.recv_buffer, list):
        for c in fb.recv_buffer:
            after = after + c
    else:
        after = after + _shims.BytesShim(fb.recv_buffer)
    unread = stream[state["pos"]:]
    total_before = before + stream
    total_after = ret + after + unread
    sx.require(len(total_after) == len(total_before), "no byte lost or duplicated (count)", raised=raised)
    sx.require(total_after == total_before, "returned ++ buffer ++ unread == old buffer ++ stream (order and content)", raised=raised)
    if not raised:
        sx.require(len(ret) == bufsize, "exactly the requested number of bytes is returned")
        cover("returned")
    else:
        cover("timeout-kept")
    for r in state["reqs"]:
        sx.require(sx.And(r >= 1, r <= 16384), "every transport request is between 1 and 16384 bytes")
    short = bufsize - len(before)
    sx.require(state["pos"] <= max(short, 0), "never reads beyond the requested count (no read-ahead into the next frame)")


# ----------------------------------------------------------------------------------------------- traffic shapes
def _shape_stream(shape):
    """returns the server byte stream after the handshake for a named traffic shape with symbolic payloads"""
    if shape == "text":
        return server_frame(1, 1, sx.sym_bytes("a", 3))
    if shape == "bin16":
        p = sx.sym_bytes("a", 4)
        return server_frame(1, 2, p + bytes(122) + p)  # 130 bytes -> 16-bit length
    if shape == "frag+ping":
        return (server_frame(0, 1, sx.sym_bytes("a", 1)) + server_frame(1, 9, sx.sym_bytes("p", 2)) +
                server_frame(1, 0, sx.sym_bytes("b", 1)))
    if shape == "ping+pong+bin":
        return server_frame(1, 9, sx.sym_bytes("p", 1)) + server_frame(1, 10, sx.sym_bytes("q", 1)) + server_frame(1, 2, sx.sym_bytes("a", 1))
    if shape == "close":
        return server_frame(1, 8, b"\x03\xe8" + sx.sym_bytes("r", 2))
    if shape == "two-text":
        return server_frame(1, 1, sx.sym_bytes("a", 1)) + server_frame(1, 2, sx.sym_bytes("b", 2))
    if shape == "masked":
        return server_frame(1, 2, sx.sym_bytes("a", 2), key=sx.sym_bytes("k", 4))
    if shape == "bin-big":
        # a payload that needs several 16 KiB reads (40004 bytes: symbolic ends, fixed middle), then a short text frame
        p = sx.sym_bytes("a", 2) + bytes((11 * j) & 255 for j in range(40000)) + sx.sym_bytes("b", 2)
        return server_frame(1, 2, p) + server_frame(1, 1, sx.sym_bytes("c", 1))
    raise AssertionError(shape)


def _drive(ws, ncalls, max_retries):
    """call recv_data(control_frame=True) until the stream ends; a timeout - on a non-blocking transport: a would-block
    (BlockingIOError) - is retried (same call)"""
    Proto, Payload, Closed, Timed = _excs()
    out = []
    retries = 0
    while len(out) < ncalls:
        sx.tick()
        try:
            op, data = ws.recv_data(True)
            out.append(("msg", op, data))
        except (Timed, BlockingIOError):
            retries += 1
            if retries > max_retries:
                out.append(("too-many-timeouts",))
                break
            continue
        except Closed:
            out.append(("closed",))
            break
        except Proto:
            out.append(("proto",))
            break
        except Payload:
            out.append(("payload",))
            break
        except (sx.Control, sx.ConcreteFailure, sx.ReplayMismatch):
            raise
        except Exception as e:  # an internal error is an observable outcome too (and never equals the reference run's)
            out.append(("internal-error:" + type(e).__name__,))
            break
    return out


def _partition(stream, cut_choices, timeout_choices):
    """cut the stream at the chosen positions and insert timeouts before the chosen segments"""
    n = len(stream)
    cuts = sorted(set(c for c in cut_choices if 0 < c < n))
    segs, prev = [], 0
    for c in cuts + [n]:
        segs.append(stream[prev:c])
        prev = c
    out = []
    for i, s in enumerate(segs):
        for t in timeout_choices:
            if t == i:
                out.append("timeout")
        out.append(s)
    return out


def _same(a, b, what):
    sx.require(len(a) == len(b), "same number of results as with the unsegmented stream (%s)" % what, got=len(a), exp=len(b))
    for x, y in zip(a, b):
        sx.require(x[0] == y[0], "same kind of result at each position (%s)" % what, got=str(x[0]), exp=str(y[0]))
        if x[0] == "msg" and y[0] == "msg":
            sx.require(sx.And(x[1] == y[1], x[2] == y[2]), "same opcode and payload (%s)" % what)


def s_part(shape, ncuts, ntimeouts, allcuts=False, nonblocking=False):
    """the same traffic under the trivial partition and under a symbolic partition + timeouts"""
    quiet_logging()
    stream = _shape_stream(shape)
    n = len(stream)
    keys1 = [sx.sym_bytes("k1_%d" % i, 4) for i in range(3)]
    if shape == "bin-big":
        # cut positions from a catalogue: inside the header, early / exactly at / just behind the 16 KiB read boundaries, near the end
        cand = [1, 3, 4, 5, 6, 104, 16384, 16387, 16388, 16389, 20000, 32772, 32773, 36000, n - 5, n - 4, n - 3, n - 1]
        cuts, lo = [], 0
        for j in range(ncuts):
            ci = lo + sx.choice("cut%d" % j, len(cand) - lo)
            cuts.append(cand[ci])
            lo = ci
    elif allcuts:
        # every subset of cut positions: one symbolic bit per position
        cuts = [i for i in range(1, n) if sx.choice("cut%d" % i, 2)]
    else:
        cuts, lo = [], 0
        for j in range(ncuts):  # non-decreasing positions (a repeated position = fewer cuts)
            c = lo + sx.choice("cut%d" % j, n - lo)
            cuts.append(c)
            lo = c
    nseg = len(set(c for c in cuts if 0 < c < n)) + 1
    touts, lo = [], 0
    for j in range(ntimeouts):  # non-decreasing segment indices; index nseg = no timeout; equal indices = repeated timeout
        t = lo + sx.choice("to%d" % j, nseg + 1 - lo)
        touts.append(t)
        lo = t
    # reference run
    s0 = FakeSock([stream, "eof"])
    w0 = new_ws(s0, get_mask_key=KeySource(list(keys1)), skip_utf8_validation=True)
    ref = _drive(w0, 8, 0)
    # partitioned run
    s1 = FakeSock(_partition(stream, cuts, touts) + ["eof"])
    if nonblocking:
        s1.timeout = 0  # select-driven application: a read before the next segment has arrived raises EAGAIN and is retried later
    w1 = new_ws(s1, get_mask_key=KeySource(list(keys1)), skip_utf8_validation=True)
    got = _drive(w1, 8, ntimeouts)
    _same(got, ref, shape)
    sx.require(s1.wire() == s0.wire(), "automatic replies (pong / close) identical to the unsegmented run", shape=shape)
    if got and got[-1][0] == "closed":
        sx.require(not any(isinstance(c, (bytes, bytearray, core.SymBytes)) and len(c) for c in s1.incoming), "whole stream consumed")
    cover("part")
    if any(t < nseg for t in touts):
        cover("with-timeout")


class HandshakeSock(FakeSock):
    """answers the opening request with a valid 101 response followed (in the same byte stream) by `frames`;
    the combined stream is then cut at `cuts`"""

    def __init__(self, frames, cuts, timeouts=(), eol="crlf"):
        FakeSock.__init__(self)
        self.frames, self.cuts, self.touts = frames, cuts, timeouts
        self.eol = eol  # line ends of the response head: CRLF / bare LF (tolerated by the library, cf. its header03 test data) / only the blank line bare
        self.req = b""
        self.answered = False
        self.head_len = None

    def send(self, data):
        k = FakeSock.send(self, data)
        if not self.answered:
            self.req = self.req + data
            if b"\r\n\r\n" in self.req:
                head = self.req.split(b"\r\n\r\n")[0].decode()
                key = [l.split(":", 1)[1].strip() for l in head.split("\r\n") if l.lower().startswith("sec-websocket-key")][0]
                acc = base64.b64encode(hashlib.sha1((key + GUID).encode()).digest()).decode()
                resp = ("HTTP/1.1 101 Switching Protocols\r\nUpgrade: websocket\r\nConnection: Upgrade\r\n"
                        "Sec-WebSocket-Accept: %s\r\n\r\n" % acc).encode()
                if self.eol == "lf":
                    resp = resp.replace(b"\r\n", b"\n")
                elif self.eol == "lf-blank":
                    resp = resp[:-2] + b"\n"
                self.head_len = len(resp)
                cuts = [self.head_len + c for c in self.cuts]  # negative c: inside the head, counted from its end
                self.incoming = _partition(resp + self.frames, cuts, self.touts) + ["eof"]
                self.answered = True
                self.sent = []
        return k


def s_hand(shape, ncuts, eol="crlf"):
    """frames arriving in the same segment(s) as the handshake response: connect() must not swallow a frame byte"""
    quiet_logging()
    import websocket._handshake as HS
    stream = _shape_stream(shape)
    n = len(stream)
    # cut positions relative to the end of the head: -3..n (negative = inside the head's last bytes)
    cuts, lo = [], 0
    for j in range(ncuts):
        c = lo + sx.choice("cut%d" % j, n + 4 - lo)
        cuts.append(c - 3)
        lo = c
    keys = [sx.sym_bytes("k1_%d" % i, 4) for i in range(3)]
    ep = EnvPatch()
    ep.urandom(lambda k: bytes(range(k)))
    try:
        s0 = FakeSock([stream, "eof"])
        w0 = new_ws(s0, get_mask_key=KeySource(list(keys)), skip_utf8_validation=True)
        ref = _drive(w0, 8, 0)
        s1 = HandshakeSock(stream, cuts, eol=eol)
        w1 = new_ws(None, get_mask_key=KeySource(list(keys)), skip_utf8_validation=True)
        try:
            w1.connect("ws://example.test/chat", socket=s1)
        except (sx.Control, sx.ConcreteFailure, sx.ReplayMismatch):
            raise
        except Exception as e:
            sx.require(False, "connect failed with %s when frames share a segment with the handshake response" % type(e).__name__)
            return
        got = _drive(w1, 8, 0)
        _same(got, ref, "after handshake: " + shape)
        sx.require(s1.wire() == s0.wire(), "automatic replies identical", shape=shape)
        cover("hand")
    finally:
        ep.restore()


def obligations(tier):
    thorough = tier == "thorough"
    strict = [dict(nchunks=c, bufsize=b, stream_len=s) for c in (0, 1, 2) for b in (0, 1, 2, 3, 5, 8) for s in ((0, 2, 4, 6) if not thorough else (0, 1, 2, 3, 4, 6, 8))]
    if thorough:
        strict += [dict(nchunks=3, bufsize=b, stream_len=4) for b in (1, 4, 8)]
    shapes = ["text", "frag+ping", "ping+pong+bin", "close", "two-text", "masked"]
    part = []
    for sh in shapes:
        part.append(dict(shape=sh, ncuts=0, ntimeouts=0, allcuts=True))  # every partition (stream lengths 5..10)
        part.append(dict(shape=sh, ncuts=2 if not thorough else 3, ntimeouts=2))
    part.append(dict(shape="bin16", ncuts=2, ntimeouts=1))
    part.append(dict(shape="bin-big", ncuts=2, ntimeouts=2 if thorough else 1))  # timeouts part-way through a payload of several 16 KiB reads (round 8)
    for sh in ("text", "frag+ping", "close"):
        part.append(dict(shape=sh, ncuts=2, ntimeouts=2, nonblocking=True))
    if thorough:
        part.append(dict(shape="bin16", ncuts=3, ntimeouts=2))
        for sh in ("frag+ping", "two-text"):
            part.append(dict(shape=sh, ncuts=0, ntimeouts=1, allcuts=True))
    hand = [dict(shape=sh, ncuts=c) for sh in ("text", "frag+ping", "close", "two-text") for c in ((0, 1, 2) if not thorough else (0, 1, 2, 3))]
    # response heads whose lines end in a bare LF (accepted by the library): the byte after the blank line is a frame byte (round 7)
    hand += [dict(shape=sh, ncuts=c, eol=e) for sh in ("text", "frag+ping") for c in (0, 1) for e in ("lf", "lf-blank")]
    return [
        Obligation("S-strict", s_strict, strict,
                   bounds="ONE recv_strict step: buffer of 0..%d chunks of 0..3 symbolic bytes, request 0..8, stream 0..%d bytes delivered in pieces "
                          "of symbolic size 1..4, timeout at every transport call index" % (3 if thorough else 2, 8 if thorough else 6),
                   must_cover=["returned", "timeout-kept"], budget_s=1800, kernel=["frame_buffer.recv_strict"]),
        Obligation("S-part", s_part, part,
                   bounds="traffic shapes %s with symbolic payloads: EVERY partition of the 5..11-byte streams into reads; all placements of <=%d cuts "
                          "with <=2 timeouts (before any segment) on all shapes incl. a 134-byte 16-bit frame; a 40004-byte frame (several 16 KiB reads) cut at 2 of 18 catalogued positions with a timeout; 3 shapes also on a non-blocking transport "
                          "(timeout 0: would-block instead of timeout)" % (shapes + ["bin16"], 3 if thorough else 2),
                   must_cover=["part", "with-timeout"], budget_s=2400 if thorough else 1200,
                   kernel=["frame_buffer.recv_frame (stage flags)", "recv_strict", "_socket.recv", "WebSocket._recv", "recv_data_frame", "continuous_frame.*"]),
        Obligation("S-hand", s_hand, hand,
                   bounds="handshake response followed by frames, cut at <=%d positions from 3 bytes before the end of the head to the end of the stream; head lines ending in CRLF, in a bare LF, or only the blank line bare" % (3 if thorough else 2),
                   must_cover=["hand"], budget_s=1200,
                   kernel=["_socket.recv_line", "_http.read_headers", "_handshake.handshake", "WebSocket.connect", "recv_frame"]),
    ]
