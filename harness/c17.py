"""C17 — arbitrary server bytes produce only documented exceptions, never hangs, never peer-sized reads."""
import bvsym as sx
from bvsym import core
from .common import reset_cookie_jar
from .common import FakeSock, KeySource, Obligation, Spin, cover, new_ws, quiet_logging, server_frame

PROPERTY = "C17"
EXPLANATION = ("Handshake phase: _socket.recv_line, _http.read_headers, _handshake._get_resp_headers/handshake and WebSocket.connect "
               "(redirect lookup) executed on SYMBOLIC response bytes — arbitrary short heads and grammar-shaped heads with one "
               "symbolic field (status token, header line, Content-Length value, non-UTF-8 byte, missing Location) — using the ASCII "
               "SymStr proxy for the decoded text.  Frame phase: recv / recv_data / recv_data_frame on an arbitrary symbolic byte "
               "stream followed by end of stream or silence.  Checked: exception type within the documented hierarchy (or the "
               "transport's own), every transport read request <= 16384 bytes whatever length the peer declared, and progress "
               "(step budget as non-termination witness).")
ASSUMPTIONS = ["decoded header text is modelled for ASCII content; a head that is valid UTF-8 with non-ASCII characters is followed only "
               "up to the decode (recorded as a separate path class, not as a pass)",
               "default configuration (UTF-8 validation on)"]

MAXREQ = 16384


def _allowed():
    import socket
    from websocket._exceptions import WebSocketException
    return (WebSocketException,), (socket.timeout, TimeoutError, ConnectionError)


class ReqSock(FakeSock):
    """answers any request with a fixed response (maybe symbolic); records the size of every read request"""

    def __init__(self, response, then=("eof",)):
        FakeSock.__init__(self)
        self.response = response
        self.then = list(then)
        self.armed = False

    def send(self, data):
        k = FakeSock.send(self, data)
        if not self.armed:
            self.armed = True
            self.incoming = [self.response] + self.then
        return k


def _check_reqs(sock, what):
    for n in sock.recv_requests:
        sx.require(n <= MAXREQ, "no transport read is sized by a length the peer merely declared (every request <= 16384)", what=what)


def _run(call, what, sock):
    """run `call`, classify the outcome; any exception outside the documented hierarchy is the violation"""
    WS, transport = _allowed()
    try:
        call()
        out = "returned"
    except WS as e:
        out = "ws:" + type(e).__name__
    except transport as e:
        out = "transport:" + type(e).__name__
    except (sx.Control, sx.ConcreteFailure, sx.ReplayMismatch):
        raise
    except Spin:
        sx.require(False, "the call spins on a transport that has reported end of stream (no progress, would hang)", what=what)
        out = "spin"
    except Exception as e:
        sx.require(False, "internal error %s escapes instead of a documented exception" % type(e).__name__, what=what)
        out = "internal"
    _check_reqs(sock, what)
    return out


def x_head_any(n):
    """read_headers on n arbitrary bytes followed by end of stream"""
    quiet_logging()
    from websocket._http import read_headers
    data = sx.sym_bytes("h", n)
    sock = FakeSock([data, "eof"])
    out = _run(lambda: read_headers(sock), "arbitrary %d-byte head" % n, sock)
    cover("any-" + out.split(":")[0])


def _connect(resp, then=("eof",), **opts):
    quiet_logging()
    sock = ReqSock(resp, then)
    ws = new_ws(None)
    out = _run(lambda: ws.connect("ws://example.test/r", socket=sock, **opts), opts.pop("what", "shaped head"), sock)
    if out != "returned":
        sx.require(not ws.connected, "a failed connect leaves the object unconnected")
    return out, ws, sock


def x_status(n, spaces):
    """status line whose status token is n symbolic ASCII characters"""
    tok = sx.sym_str("st", n).encode()
    resp = b"HTTP/1.1" + (b" " if spaces >= 1 else b"") + tok + (b" OK" if spaces >= 2 else b"") + b"\r\nUpgrade: websocket\r\n\r\n"
    out, ws, sock = _connect(resp, what="status token")
    cover("status-" + out.split(":")[0])


def x_line(n):
    """a header line consisting of n symbolic bytes (may lack the colon, may be non-UTF-8, may contain CR/LF)"""
    line = sx.sym_bytes("ln", n)
    resp = b"HTTP/1.1 101 Switching Protocols\r\n" + line + b"\r\nUpgrade: websocket\r\n\r\n"
    out, ws, sock = _connect(resp, what="header line")
    cover("line-" + out.split(":")[0])


def x_clen(n, status):
    """error/redirect response whose Content-Length value is n symbolic ASCII characters; a body follows"""
    val = sx.sym_str("cl", n).encode()
    resp = b"HTTP/1.1 " + str(status).encode() + b" X\r\nContent-Length: " + val + b"\r\n\r\n" + b"BODYBODY"
    out, ws, sock = _connect(resp, what="content-length value")
    cover("clen-" + out.split(":")[0])


def x_body_short(declared, have):
    """error response declaring `declared` body bytes but delivering only `have`, then end of stream"""
    resp = b"HTTP/1.1 404 NF\r\nContent-Length: " + str(declared).encode() + b"\r\n\r\n" + b"x" * have
    out, ws, sock = _connect(resp, what="truncated error body")
    sx.require(out.startswith("ws:") or out.startswith("transport:"), "a truncated error body ends in a documented exception", got=out)
    cover("body-short")


def x_clen_big(ndigits):
    """declared body length: ndigits symbolic decimal digits (up to 10^ndigits - 1 bytes declared)"""
    digs = sx.sym_str("cl", ndigits)
    for i in range(ndigits):
        sx.assume(sx.And(digs.encode()[i] >= 48, digs.encode()[i] <= 57))
    resp = b"HTTP/1.1 403 Forbidden\r\nContent-Length: " + digs.encode() + b"\r\n\r\n" + b"x"
    out, ws, sock = _connect(resp, what="declared body length")
    cover("clen-big")


def x_redirect(status, with_location):
    resp = b"HTTP/1.1 " + str(status).encode() + b" Moved\r\n" + (b"Location: ws://example.test/n\r\n" if with_location else b"") + b"\r\n"
    out, ws, sock = _connect(resp, what="redirect %d %s Location" % (status, "with" if with_location else "without"), redirect_limit=1)
    cover("redirect-" + out.split(":")[0])


NONASCII = ("é", "✓x", "websocketé", "Upgradeé", "ü=1", "\u2028", "\U0001f600")


def x_nonascii(field):
    """outside the ASCII bound of the string model: a catalogue of well-formed NON-ASCII values in each field of an
    otherwise valid 101 response (concrete per path), through connect()"""
    import base64
    import hashlib
    quiet_logging()
    val = NONASCII[sx.choice("val", len(NONASCII))]
    mode = sx.choice("mode", 3)  # replace / append to the right value / prepend

    class Srv(ReqSock):
        def send(self, data):
            if not self.armed:
                head = bytes(data).decode("latin-1")
                key = [l.split(":", 1)[1].strip() for l in head.split("\r\n") if l.lower().startswith("sec-websocket-key")][0]
                acc = base64.b64encode(hashlib.sha1((key + "258EAFA5-E914-47DA-95CA-C5AB0DC85B11").encode()).digest()).decode()
                vals = {"upgrade": "websocket", "connection": "Upgrade", "accept": acc, "protocol": "chat", "reason": "Switching Protocols", "extra": "v"}
                if field != "name":
                    right = vals[field]
                    vals[field] = val if mode == 0 else (right + val if mode == 1 else val + right)
                extra_name = "X-Extra"
                if field == "name":
                    extra_name = "X-" + val
                resp = ("HTTP/1.1 101 %s\r\nUpgrade: %s\r\nConnection: %s\r\nSec-WebSocket-Accept: %s\r\nSec-WebSocket-Protocol: %s\r\n%s: %s\r\n\r\n"
                        % (vals["reason"], vals["upgrade"], vals["connection"], vals["accept"], vals["protocol"], extra_name, vals["extra"]))
                self.response = resp.encode("utf-8")
            return ReqSock.send(self, data)

    sock = Srv(b"")
    ws = new_ws(None)
    out = _run(lambda: ws.connect("ws://example.test/r", socket=sock, subprotocols=["chat"]), "non-ASCII %s" % field, sock)
    cover("nonascii-" + out.split(":")[0])


LOCATIONS = ("", "x", "relative/path", "http://h.example/", "ws:", "ws://", "ws://h.example:99999/", "ws://[::1", "//h.example/x", "wss://h.example:x/",
             "ws://h.example/ok")
SETCOOKIES = ("a,b=c", "=v", "a b=c; Domain=x.com", "\x01=1", "a=1; Domain=", "k=v; Domain=x.com; Max-Age=zz", ";;;", "a=\"unterminated", "n=v; Domain=x.com")


def x_location(i):
    """3xx response whose Location is the i-th catalogue value (garbage / foreign scheme / bad port / valid)"""
    loc = LOCATIONS[i]
    resp = ("HTTP/1.1 302 Found\r\nLocation: %s\r\n\r\n" % loc).encode()
    quiet_logging()
    import websocket._http as H
    import simnet
    k = simnet.Kernel(step_budget=2000)
    net = simnet.Net(k, [{"reject": True}])
    simnet.install(k, net)  # a redirect target that parses is dialled on the fake network (and rejected there)
    try:
        sock = ReqSock(resp)
        ws = new_ws(None)
        out = _run(lambda: ws.connect("ws://example.test/r", socket=sock), "Location %r" % loc, sock)
    finally:
        k.shutdown()
        simnet.uninstall()
    sx.require(out != "returned", "a redirect can never yield a connected object without a new handshake", loc=loc)
    cover("location")


def x_setcookie(i):
    """valid 101 response carrying the i-th catalogue Set-Cookie value (malformed cookie syntax from the server)"""
    import base64
    import hashlib
    import websocket._handshake as HS
    quiet_logging()
    reset_cookie_jar()
    val = SETCOOKIES[i]

    class Srv(ReqSock):
        def send(self, data):
            if not self.armed:
                head = bytes(data).decode("latin-1")
                key = [l.split(":", 1)[1].strip() for l in head.split("\r\n") if l.lower().startswith("sec-websocket-key")][0]
                acc = base64.b64encode(hashlib.sha1((key + "258EAFA5-E914-47DA-95CA-C5AB0DC85B11").encode()).digest()).decode()
                self.response = ("HTTP/1.1 101 Switching Protocols\r\nUpgrade: websocket\r\nConnection: Upgrade\r\nSec-WebSocket-Accept: %s\r\n"
                                 "Set-Cookie: %s\r\n\r\n" % (acc, val)).encode("latin-1")
            return ReqSock.send(self, data)

    sock = Srv(b"")
    ws = new_ws(None)
    try:
        out = _run(lambda: ws.connect("ws://example.test/r", socket=sock), "Set-Cookie %r" % val, sock)
    finally:
        reset_cookie_jar()
    cover("setcookie-" + out.split(":")[0])


def x_frame(T, api, ending, fire=False, skip=False, nonblocking=False):
    """arbitrary T-byte frame-phase stream followed by end of stream or silence (timeout); the call is retried after a
    timeout like an application would; allowed outcomes: a result, or protocol / payload / connection-closed / timeout"""
    quiet_logging()
    from websocket._exceptions import (WebSocketConnectionClosedException, WebSocketPayloadException,
                                       WebSocketProtocolException, WebSocketTimeoutException)
    stream = sx.sym_bytes("s", T)
    sock = FakeSock([stream] + (["eof"] if ending == "eof" else ["timeout", "timeout", "eof"]))
    if nonblocking:
        sock.timeout = 0  # a non-blocking transport (select-driven application): end of stream is still end of stream
    ws = new_ws(sock, get_mask_key=KeySource([bytes(4)] * 64), fire_cont_frame=fire, skip_utf8_validation=skip)
    outcomes = []
    for attempt in range(T + 4):
        sx.tick()
        try:
            if api == "recv":
                ws.recv()
            elif api == "recv_data":
                ws.recv_data(True)
            else:
                ws.recv_data_frame(True)
            outcomes.append("result")
        except WebSocketTimeoutException:
            outcomes.append("timeout")
        except WebSocketConnectionClosedException:
            outcomes.append("closed")
            break
        except (WebSocketProtocolException, WebSocketPayloadException):
            outcomes.append("rejected")
            break
        except (sx.Control, sx.ConcreteFailure, sx.ReplayMismatch):
            raise
        except Spin:
            sx.require(False, "the call spins on a transport that has reported end of stream (no progress, would hang)", T=T)
            return
        except Exception as e:
            sx.require(False, "internal error %s escapes from %s" % (type(e).__name__, api), T=T)
            return
    _check_reqs(sock, "frame phase")
    sx.require(outcomes and outcomes[-1] in ("closed", "rejected"), "the stream is consumed to its end (no spinning without progress)", T=T)
    # progress: between two transport calls that returned nothing new the library makes no further call
    sx.require(len(sock.recv_requests) <= 4 * T + 12, "number of transport calls is bounded by the bytes available", T=T, got=len(sock.recv_requests))
    cover("frame-" + outcomes[-1])


def x_reconnect(T, gaveup):
    """an arbitrary T-byte frame-phase stream, then end of stream (or silence: the application gives up after a timeout); the
    application calls connect() again on the SAME object; the new connection delivers a text frame and a binary frame: both
    receive calls return results consistent with THOSE bytes - no internal error, nothing of the first stream lingers"""
    quiet_logging()
    from websocket._exceptions import (WebSocketConnectionClosedException, WebSocketPayloadException,
                                       WebSocketProtocolException, WebSocketTimeoutException)
    from .c03 import HandshakeSock
    from .envpatch import EnvPatch
    stream = sx.sym_bytes("s", T)
    data = sx.sym_bytes("d", 2)
    ep = EnvPatch()
    ep.urandom(lambda k: bytes(range(k)))
    try:
        ws = new_ws(None)
        ws.settimeout(5)
        ws.connect("ws://example.test/a", socket=HandshakeSock(stream, [], ()))
        if gaveup == "timeout":
            ws.sock.incoming = [c for c in ws.sock.incoming if not (isinstance(c, str) and c == "eof")] + ["timeout", "eof"]
        for attempt in range(T + 3):
            sx.tick()
            try:
                ws.recv_data(True)
            except WebSocketTimeoutException:
                break
            except (WebSocketConnectionClosedException, WebSocketProtocolException, WebSocketPayloadException):
                break
            except (sx.Control, sx.ConcreteFailure, sx.ReplayMismatch):
                raise
            except Spin:
                sx.require(False, "the call spins on a transport that has reported end of stream", T=T)
                return
            except Exception as e:
                sx.require(False, "internal error %s escapes from recv_data" % type(e).__name__, T=T)
                return
        second = HandshakeSock(server_frame(1, 1, b"hi") + server_frame(1, 2, data), [], ())
        try:
            ws.connect("ws://example.test/a", socket=second)
            r1 = ws.recv_data(True)
            r2 = ws.recv_data(True)
        except (sx.Control, sx.ConcreteFailure, sx.ReplayMismatch):
            raise
        except Exception as e:
            sx.require(False, "after connect() on the same object: %s for a valid stream" % type(e).__name__, T=T, gaveup=gaveup)
            return
    finally:
        ep.restore()
    sx.require(sx.And(r1[0] == 1, r1[1] == b"hi", r2[0] == 2, r2[1] == data),
               "after connect() on the same object the results are the frames of the new byte stream, whatever the old one ended with", T=T, gaveup=gaveup)
    _check_reqs(second, "frame phase after reconnect")
    cover("reconnected")


def x_declared(form, api):
    """a frame header declaring an arbitrary 16-/64-bit length, then a few bytes, then silence: the reads must stay capped"""
    quiet_logging()
    from websocket._exceptions import (WebSocketConnectionClosedException, WebSocketPayloadException,
                                       WebSocketProtocolException, WebSocketTimeoutException)
    nb = 2 if form == 16 else 8
    L = sx.sym_bytes("L", nb)
    b0 = sx.sym_int("b0", 8)
    head = sx.mk_bytes([b0]) + bytes([126 if form == 16 else 127]) + L
    sock = FakeSock([head + b"abc", "timeout", "eof"])
    ws = new_ws(sock)
    declared = sx.from_bytes_be(L)
    for attempt in range(3):
        try:
            r = getattr(ws, api)()
            # a result may only be returned when the declared payload really arrived (3 bytes are available)
            sx.require(declared <= 3, "a frame / message is returned although fewer bytes arrived than the header declares", form=form, api=api)
            if api == "recv_frame":
                sx.require(len(r.data) == declared, "returned payload has the declared length", form=form)
        except (WebSocketTimeoutException,):
            continue
        except (WebSocketConnectionClosedException, WebSocketProtocolException, WebSocketPayloadException):
            break
        except (sx.Control, sx.ConcreteFailure, sx.ReplayMismatch):
            raise
        except Exception as e:
            sx.require(False, "internal error %s escapes from %s" % (type(e).__name__, api), form=form)
            return
    _check_reqs(sock, "declared %d-bit length" % form)
    cover("declared")


def x_resume(form, masked):
    """a result returned after a receive timeout inside the frame header is consistent with the bytes consumed (shared with C02 R-resume)"""
    from .c02 import r_resume
    return r_resume(form, masked)


def obligations(tier):
    thorough = tier == "thorough"
    return [
        Obligation("X-head-any", x_head_any, [dict(n=n) for n in range(0, (7 if thorough else 6))],
                   bounds="EVERY response head of 0..%d bytes (then end of stream) through read_headers" % (6 if thorough else 5),
                   budget_s=2400, must_cover=["any-ws"], kernel=["_socket.recv_line", "_http.read_headers"]),
        Obligation("X-status", x_status, [dict(n=n, spaces=s) for n in (0, 1, 2, 3) for s in (0, 1, 2)] + ([dict(n=4, spaces=2)] if thorough else []),
                   bounds="status line 'HTTP/1.1[ ]<0..3 symbolic ASCII chars>[ OK]' through connect()", budget_s=1800,
                   kernel=["_http.read_headers", "_handshake._get_resp_headers", "WebSocket.connect"]),
        Obligation("X-line", x_line, [dict(n=n) for n in range(0, (5 if thorough else 4))],
                   bounds="one header line of 0..%d arbitrary bytes (no colon / non-UTF-8 / embedded CR LF) inside an otherwise valid 101 head" % (4 if thorough else 3),
                   budget_s=1800, kernel=["_http.read_headers", "_handshake._validate"]),
        Obligation("X-clen", x_clen, [dict(n=n, status=s) for n in (0, 1, 2, 3) for s in (404, 200)],
                   bounds="Content-Length value of 0..3 symbolic ASCII characters on a 404 and a 200 response with a body", budget_s=1800,
                   kernel=["_handshake._get_resp_headers"]),
        Obligation("X-body-short", x_body_short, [dict(declared=d, have=h) for d in (1, 5, 100, 70000) for h in (0, 1, 4) if h < d],
                   bounds="error body shorter than its declared Content-Length (0, 1, 4 of 1, 5, 100, 70000 bytes), then end of stream",
                   must_cover=["body-short"], kernel=["_handshake._get_resp_headers"]),
        Obligation("X-clen-big", x_clen_big, [dict(ndigits=d) for d in (1, 5, 9)], bounds="declared body length of 1, 5 and 9 symbolic decimal digits",
                   must_cover=["clen-big"], kernel=["_handshake._get_resp_headers"]),
        Obligation("X-redirect", x_redirect, [dict(status=s, with_location=w) for s in (301, 302, 303, 307, 308) for w in (False, True)],
                   bounds="each supported redirect status with and without a Location header", kernel=["WebSocket.connect (redirect lookup)"]),
        Obligation("X-nonascii", x_nonascii, [dict(field=f) for f in ("upgrade", "connection", "accept", "protocol", "reason", "extra", "name")],
                   bounds="beyond the ASCII bound: 7 well-formed non-ASCII values x {replace, append, prepend} in each of 7 fields of an otherwise valid 101 "
                          "response (catalogue enumeration, strings concrete per path)", kernel=["_http.read_headers", "_handshake._validate", "WebSocket.connect"]),
        Obligation("X-frame", x_frame, [dict(T=t, api=a, ending=e) for t in range(0, (9 if thorough else 7)) for a in ("recv", "recv_data", "recv_data_frame")
                                        for e in ("eof", "silence") if not (e == "silence" and a != "recv_data_frame" and t > 5 and not thorough)],
                   bounds="EVERY frame-phase stream of 0..%d bytes followed by end of stream or silence, through recv / recv_data / recv_data_frame" % (8 if thorough else 6),
                   must_cover=["frame-closed", "frame-rejected"], budget_s=3000,
                   kernel=["WebSocket.recv", "recv_data", "recv_data_frame", "frame_buffer.*", "ABNF.validate", "continuous_frame.*", "_socket.recv"]),
        Obligation("X-reconnect", x_reconnect, [dict(T=t, gaveup=g) for t in range(0, (7 if thorough else 5)) for g in ("eof", "timeout")],
                   bounds="EVERY frame-phase stream of 0..%d bytes ended by end of stream or by a timeout the application gives up on; connect() again on the "
                          "same object; then a text and a binary frame (2 symbolic bytes)" % (6 if thorough else 4), must_cover=["reconnected"], budget_s=1800,
                   kernel=["WebSocket.connect (receive-state reset)", "frame_buffer.recv_strict / recv_header / recv_length / recv_mask", "recv_data"]),
        Obligation("X-resume", x_resume, [dict(form=f, masked=m) for f in (16, 64) for m in (0, 1)],
                   bounds="16-/64-bit length frames with one receive timeout (silence) after every possible number of header bytes, then the rest",
                   must_cover=["resumed"], kernel=["frame_buffer.recv_frame", "recv_length", "recv_mask"]),
        Obligation("X-frame-cfg", x_frame, [dict(T=t, api="recv", ending="eof", fire=f, skip=s) for t in (3, 4, 5) for (f, s) in ((True, False), (False, True), (True, True))] +
                   [dict(T=t, api=a, ending="eof", nonblocking=True) for t in (0, 2, 3) for a in ("recv", "recv_data_frame")],
                   bounds="EVERY frame-phase stream of 3..5 bytes through recv() with per-fragment delivery and/or UTF-8 validation switched off; "
                          "every stream of 0, 2, 3 bytes then end of stream on a NON-BLOCKING transport (timeout 0)",
                   must_cover=["frame-closed"], budget_s=1800, kernel=["WebSocket.recv", "continuous_frame.extract"]),
        Obligation("X-location", x_location, [dict(i=i) for i in range(len(LOCATIONS))], bounds="%d Location values (garbage, foreign scheme, bad port, valid) on a 302 response" % len(LOCATIONS),
                   must_cover=["location"], step_budget=100000, kernel=["WebSocket.connect (redirect)", "_url.parse_url"]),
        Obligation("X-setcookie", x_setcookie, [dict(i=i) for i in range(len(SETCOOKIES))], bounds="%d malformed / unusual Set-Cookie values on a valid 101 response" % len(SETCOOKIES),
                   kernel=["_handshake.handshake_response", "SimpleCookieJar.add"]),
        Obligation("X-declared", x_declared, [dict(form=f, api=a) for f in (16, 64) for a in ("recv_frame", "recv")],
                   bounds="ALL declared 16-bit and 64-bit payload lengths (symbolic length field), any first byte", must_cover=["declared"],
                   kernel=["frame_buffer.recv_strict"]),
    ]
