"""C15 — automatic reconnection restores service after loss and stops on request."""
import itertools
from fractions import Fraction

import bvsym as sx
from bvsym import core
import simnet
from .appcommon import AppRun, close_frame, server_frame
from .common import Obligation, cover

PROPERTY = "C15"
EXPLANATION = ("The real run_forever reconnect loop (handleDisconnect, setSock(reconnecting=True), DispatcherBase.reconnect / "
               "WrappedDispatcher.reconnect) runs on the virtual-time kernel over sequences of connection outcomes (refused, handshake "
               "rejected, established then end of stream / reset / ping timeout / server close frame) with the reconnect interval a "
               "solver real; the fake network records the virtual time of every connection attempt, every open socket and every live "
               "ping thread.")
ASSUMPTIONS = simnet.ASSUMPTIONS + ["external dispatcher: a minimal event loop offering read/timeout/signal/abort/buffwrite on the virtual kernel "
                                    "(the interface WrappedDispatcher uses)"]

OUTCOMES = ("refused", "rejected", "eof", "reset", "pingtimeout")
MID_OUTCOMES = ("eof-midfrag", "eof-midframe")  # connection lost between the fragments of a message / inside a frame


def _answer_ping(server, data):
    if len(data) >= 2 and (data[0] & 0x0F) == 9:
        server.k.after(0, lambda: server.deliver(server_frame(1, 10, b"")))


def _specs(seq, final):
    """one spec per *connected* socket (refused attempts consume none)"""
    specs, outcomes, idx = [], {}, 0
    loss_after = []  # per attempt: delay between the attempt and the loss (None = unknown/ping timeout)
    for i, oc in enumerate(list(seq) + [final]):
        if oc == "refused":
            outcomes[idx] = "refused"
            loss_after.append(0)
        elif oc == "rejected":
            specs.append({"reject": True})
            loss_after.append(0)
        elif oc == "eof":
            specs.append({"script": [(1, server_frame(1, 2, bytes([0x41 + i]))), (1, "EOF")], "on_frame_bytes": _answer_ping})
            loss_after.append(2)
        elif oc == "eof-midfrag":
            specs.append({"script": [(1, server_frame(1, 2, bytes([0x41 + i]))), (1, server_frame(0, 1, b"par")), (1, "EOF")], "on_frame_bytes": _answer_ping})
            loss_after.append(3)
        elif oc == "eof-midframe":
            specs.append({"script": [(1, server_frame(1, 2, bytes([0x41 + i]))), (1, bytes([0x82, 9, 1, 2, 3])), (1, "EOF")], "on_frame_bytes": _answer_ping})
            loss_after.append(3)
        elif oc == "reset":
            specs.append({"script": [(1, server_frame(1, 2, bytes([0x41 + i]))), (1, "RESET")], "on_frame_bytes": _answer_ping})
            loss_after.append(2)
        elif oc == "pingtimeout":
            specs.append({"script": [(1, server_frame(1, 2, bytes([0x41 + i]))), (300, "EOF")]})  # never answers pings (gives up after 300 s)
            loss_after.append(None)
        elif oc == "pingtimeout-chatty":
            # never answers pings but keeps sending (a server ping every 2 s for 120 s): the loop's select never times out
            specs.append({"script": [(1, server_frame(1, 2, bytes([0x41 + i])))] + [(2, server_frame(1, 9, b""))] * 60 + [(300, "EOF")]})
            loss_after.append(None)
        elif oc == "close":
            specs.append({"script": [(1, server_frame(1, 2, bytes([0x41 + i]))), (1, close_frame(1000))], "on_frame_bytes": _answer_ping})
            loss_after.append(2)
        elif oc == "userclose":
            specs.append({"script": [(1, server_frame(1, 2, b"Z")), (30, "EOF")], "on_frame_bytes": _answer_ping})
            loss_after.append(None)
        idx += 1
    return specs, outcomes, loss_after


def k_seq(seq, final, ping=False, on_reconnect=True, default=False):
    """seq: outcomes of the connection attempts that fail/are lost; final: 'close' (server close frame) or 'userclose'
    (application closes from on_message of the last connection)"""
    import websocket
    import websocket._app as A
    interval = sx.sym_real("interval")
    sx.assume(sx.And(interval > 0, interval <= 20))
    specs, outcomes, loss_after = _specs(seq, final)
    hooks = {}
    if final == "userclose":
        hooks["on_message"] = lambda run, data: run.app.close() if data == b"Z" else None
    cbs = ["on_open", "on_message", "on_error", "on_close"] + (["on_reconnect"] if on_reconnect else [])
    run = AppRun(specs, outcomes=outcomes, hooks=hooks, callbacks=cbs, step_budget=3000)
    peak = {"socks": 0, "threads": 0}

    def watch(_n):
        peak["socks"] = max(peak["socks"], len(run.net.open_sockets()))
        peak["threads"] = max(peak["threads"], sum(1 for t in run.k.live_threads if t.is_alive()))
    run.k.on_yield = watch
    old_default = A.RECONNECT
    rf = {}
    needs_ping = ping or "pingtimeout" in seq or "pingtimeout-chatty" in seq
    if needs_ping:
        rf.update(ping_interval=10, ping_timeout=3)
    try:
        if default:
            websocket.setReconnect(interval)
        else:
            rf["reconnect"] = interval
        try:
            run.run(**rf)
        except simnet.KernelStuck:
            sx.require(False, "run_forever blocked forever", seq=",".join(seq), final=final)
            return
    finally:
        A.RECONNECT = old_default
    what = ",".join(seq) + "->" + final
    sx.require(run.exc is None, "run_forever raised %s" % type(run.exc).__name__, what=what)
    attempts = [e for e in run.k.log if e[1] == "connect"]
    sleeps = [e for e in run.k.log if e[1] == "sleep"]
    sx.require(len(attempts) == len(seq) + 1, "one connection attempt per loss until one succeeds, none after the run was ended",
               got=len(attempts), exp=len(seq) + 1, what=what)
    if len(attempts) != len(seq) + 1:
        return
    for j in range(1, len(attempts)):
        prev_t = attempts[j - 1][0]
        la = loss_after[j - 1]
        if la is not None:
            sx.require(attempts[j][0] == prev_t + la + interval, "the next attempt happens exactly one reconnect interval after the loss",
                       j=j, what=what)
        else:
            sx.require(attempts[j][0] <= prev_t + 1 + 2 * 10 + 2 * 3 + interval,
                       "a peer that stops answering pings is detected (two timeouts after the first ping) and followed by a new attempt", j=j, what=what)
            cand = [s for s in sleeps if bool(s[0] >= prev_t) and bool(s[0] < attempts[j][0])]
            sx.require(len(cand) >= 1 and attempts[j][0] == cand[-1][0] + interval,
                       "the next attempt happens exactly one reconnect interval after the loss was detected", j=j, what=what)
    names = run.names()
    sx.require(names.count("on_close") == 1 and names[-1] == "on_close", "no on_close between reconnections; exactly one at the end", what=what,
               n=names.count("on_close"))
    # successes: which attempts established a connection
    est = [i for i, oc in enumerate(list(seq) + [final]) if oc not in ("refused", "rejected")]
    opens = [t for t in run.trace if t[0] in ("on_open", "on_reconnect")]
    sx.require(len(opens) == len(est), "every established connection fires on_open / on_reconnect once", got=len(opens), exp=len(est), what=what)
    for n, (i, t) in enumerate(zip(est, opens)):
        expname = "on_open" if (i == 0 or not on_reconnect) else "on_reconnect"
        sx.require(t[0] == expname, "first connection fires on_open, re-established ones on_reconnect (on_open if none given)", i=i,
                   got=t[0], exp=expname, what=what)
    msgs = [t[2][0] for t in run.of("on_message")]
    exp_msgs = [bytes([0x41 + i]) if oc != "userclose" else b"Z" for i, oc in enumerate(list(seq) + [final]) if oc not in ("refused", "rejected")]
    sx.require(msgs == exp_msgs, "messages flow again on every re-established connection", got=str(msgs), exp=str(exp_msgs), what=what)
    sx.require(peak["socks"] <= 1, "never more than one live transport", got=peak["socks"], what=what)
    sx.require(peak["threads"] <= 1, "never more than one live ping thread", got=peak["threads"], what=what)
    sx.require(all(s.closed for s in run.net.socks), "all transports closed at the end", what=what)
    sx.require(not any(run.alive), "no ping thread left", what=what)
    cover("seq")
    if final == "close":
        cover("server-close-ends")
    else:
        cover("user-close-ends")


def k_close_sleep(lost, when):
    """the application calls close() from another thread WHILE the loop sleeps before a reconnection attempt (or right
    after the loss was detected): the run must end with no further connection attempt"""
    interval = sx.sym_real("interval")
    sx.assume(sx.And(interval > 0, interval <= 20))
    frac = {"early": Fraction(1, 4), "late": Fraction(3, 4)}[when]
    specs, outcomes, loss_after = _specs([lost], "close")
    run = AppRun(specs, outcomes=outcomes, callbacks=["on_open", "on_message", "on_error", "on_close", "on_reconnect"], step_budget=3000)
    la = loss_after[0]

    def closer():
        run.k.block(lambda: False, la + interval * frac)
        run.app.close()

    run.k.spawn(closer, "closer")
    try:
        run.run(reconnect=interval)
    except simnet.KernelStuck:
        sx.require(False, "run_forever blocked forever", lost=lost)
        return
    attempts = [e for e in run.k.log if e[1] == "connect"]
    what = "%s, close() %s in the reconnect sleep" % (lost, when)
    sx.require(run.exc is None, "run_forever raised %s" % type(run.exc).__name__, what=what)
    sx.require(len(attempts) == 1, "the application's own close() ends the run: no further connection attempt", got=len(attempts), what=what)
    names = run.names()
    sx.require(names.count("on_close") == 1 and names[-1] == "on_close", "on_close once, last", what=what, n=names.count("on_close"))
    sx.require(all(s.closed for s in run.net.socks), "all transports closed at the end", what=what)
    cover("close-sleep")


class FakeRel:
    """minimal external dispatcher (the subset of the `rel` API that WrappedDispatcher uses)"""

    def __init__(self, k):
        self.k = k
        self.readers = {}
        self.timers = []
        self.aborted = False
        self.signals = []

    def signal(self, sig, cb):
        self.signals.append((sig, cb))

    def abort(self):
        self.aborted = True

    def read(self, sock, cb):
        self.readers[sock] = cb

    def timeout(self, seconds, cb, *args):
        self.timers.append([self.k.now + seconds, cb, args, seconds])

    def buffwrite(self, sock, data, send, on_disconnect):
        try:
            while data:
                n = send(sock, data)
                data = data[n:]
        except Exception as e:  # noqa
            on_disconnect(e)

    def dispatch(self, until):
        """run until nothing is left to wait for or virtual time `until`"""
        while not self.aborted:
            sx.tick()
            for s in [s for s in self.readers if s.closed]:
                del self.readers[s]
            if not self.readers and not self.timers:
                return
            if bool(self.k.now >= until):
                return

            def rdy():
                return any(s.kernel_readable() for s in self.readers) or any(bool(t[0] <= self.k.now) for t in self.timers)
            nxt = None
            for t in self.timers:
                if nxt is None or bool(t[0] < nxt):
                    nxt = t[0]
            to = None if nxt is None else nxt - self.k.now
            if to is None and not self.readers:
                return
            self.k.block(rdy, to if to is None or bool(to > 0) else 0)
            due = [t for t in self.timers if bool(t[0] <= self.k.now)]
            for t in due:
                self.timers.remove(t)
                r = t[1](*t[2])
                if r:  # rel re-arms a timeout whose callback returns True
                    self.timers.append([self.k.now + t[3], t[1], t[2], t[3]])
            for s, cb in list(self.readers.items()):
                if not s.closed and s.kernel_readable() and s in self.readers:
                    if not cb():
                        self.readers.pop(s, None)


def k_ext(seq, final, close_in_timer=False):
    """the same with an external dispatcher: run_forever returns at once, the external loop drives everything.
    close_in_timer: the application calls close() from a timer of the external loop while the reconnect timer is pending"""
    interval = sx.sym_real("interval")
    sx.assume(sx.And(interval > 0, interval <= 20))
    specs, outcomes, loss_after = _specs(seq, final)
    hooks = {}
    if final == "userclose":
        hooks["on_message"] = lambda run, data: run.app.close() if data == b"Z" else None
    run = AppRun(specs, outcomes=outcomes, hooks=hooks, callbacks=["on_open", "on_message", "on_error", "on_close", "on_reconnect"], step_budget=3000)
    rel = FakeRel(run.k)
    import websocket
    try:
        try:
            if close_in_timer:
                rel.timeout(loss_after[0] + interval * Fraction(1, 2), lambda: run.app.close())
            run.app.run_forever(dispatcher=rel, reconnect=interval)
            rel.dispatch(run.k.t0 + 400)
        except simnet.KernelStuck:
            sx.require(False, "external dispatcher loop blocked forever", seq=",".join(seq), final=final)
            return
        except (sx.Control, sx.ConcreteFailure, sx.ReplayMismatch):
            raise
        except Exception as e:
            sx.require(False, "external-dispatcher run raised %s" % type(e).__name__, seq=",".join(seq), final=final)
            return
    finally:
        run.alive = [t.is_alive() for t in run.k.live_threads]
        run.k.shutdown()
        simnet.uninstall()
    what = "ext:" + ",".join(seq) + "->" + final
    attempts = [e for e in run.k.log if e[1] == "connect"]
    if close_in_timer:
        sx.require(len(attempts) == 1, "the application's own close() ends the run: no further connection attempt (external dispatcher)",
                   got=len(attempts), what=what)
        sx.require(all(s.closed for s in run.net.socks), "all transports closed at the end", what=what)
        cover("ext-close-timer")
        return
    sx.require(len(attempts) == len(seq) + 1, "one connection attempt per loss until one succeeds, none after the run was ended",
               got=len(attempts), exp=len(seq) + 1, what=what)
    if len(attempts) != len(seq) + 1:
        return
    for j in range(1, len(attempts)):
        la = loss_after[j - 1]
        if la is not None:
            sx.require(attempts[j][0] == attempts[j - 1][0] + la + interval, "the next attempt happens exactly one reconnect interval after the loss",
                       j=j, what=what)
    names = run.names()
    # (whether on_close fires after the application's own close() depends on how the external loop treats a closed
    # descriptor; only 'never between reconnections, never twice' is demanded here)
    sx.require(names.count("on_close") <= 1 and (names.count("on_close") == 0 or names[-1] == "on_close"),
               "no on_close between reconnections; at most one, at the end", what=what, n=names.count("on_close"))
    if final == "close":
        sx.require(names.count("on_close") == 1, "a server close frame ends the run with on_close", what=what)
    est = [i for i, oc in enumerate(list(seq) + [final]) if oc not in ("refused", "rejected")]
    opens = [t for t in run.trace if t[0] in ("on_open", "on_reconnect")]
    sx.require(len(opens) == len(est), "every established connection fires on_open / on_reconnect once", got=len(opens), exp=len(est), what=what)
    msgs = [t[2][0] for t in run.of("on_message")]
    exp_msgs = [bytes([0x41 + i]) if oc != "userclose" else b"Z" for i, oc in enumerate(list(seq) + [final]) if oc not in ("refused", "rejected")]
    sx.require(msgs == exp_msgs, "messages flow again on every re-established connection", got=str(msgs), exp=str(exp_msgs), what=what)
    sx.require(all(s.closed for s in run.net.socks), "all transports closed at the end", what=what)
    cover("ext")


def k_ext_double(when):
    """external dispatcher; ONE loss is reported twice - the read side sees the end of stream and, before the reconnect timer fires, the
    application writes to the dead connection, whose failure is reported through the write path as well.  However many timers that
    leaves pending: never more than one live transport at a time, messages flow again, every transport is closed at the end."""
    interval = sx.sym_real("interval")
    sx.assume(sx.And(interval > 0, interval <= 20))
    frac = {"early": Fraction(1, 4), "late": Fraction(3, 4)}[when]
    first = {"script": [(1, server_frame(1, 2, b"A")), (1, "EOF")], "on_frame_bytes": _answer_ping}
    nxt = {"script": [(1, server_frame(1, 2, b"B")), (interval * 3, close_frame(1000))], "on_frame_bytes": _answer_ping}
    run = AppRun([first, nxt], callbacks=["on_open", "on_message", "on_error", "on_close", "on_reconnect"], step_budget=3000)
    rel = FakeRel(run.k)
    peak = {"socks": 0}

    def watch(_n=None):
        peak["socks"] = max(peak["socks"], len(run.net.open_sockets()))
    run.k.on_yield = watch

    def late_write():
        try:
            run.app.send(b"x", 2)
        except (sx.Control, sx.ConcreteFailure, sx.ReplayMismatch):
            raise
        except Exception:
            pass  # the application is told that the connection is gone; fine
    try:
        try:
            rel.timeout(2 + interval * frac, late_write)
            run.app.run_forever(dispatcher=rel, reconnect=interval)
            rel.dispatch(run.k.t0 + 400)
            watch()
        except simnet.KernelStuck:
            sx.require(False, "external dispatcher loop blocked forever", when=when)
            return
        except (sx.Control, sx.ConcreteFailure, sx.ReplayMismatch):
            raise
        except Exception as e:
            sx.require(False, "external-dispatcher run raised %s" % type(e).__name__, when=when)
            return
    finally:
        run.alive = [t.is_alive() for t in run.k.live_threads]
        run.k.shutdown()
        simnet.uninstall()
    sx.require(peak["socks"] <= 1, "never more than one live transport (a loss reported by the read side and by a failed write)", got=peak["socks"], when=when)
    msgs = [t[2][0] for t in run.of("on_message")]
    sx.require(len(msgs) >= 2 and msgs[0] == b"A" and all(m == b"B" for m in msgs[1:]), "messages flow again after the reconnection", got=str(msgs), when=when)
    sx.require(all(s.closed for s in run.net.socks), "all transports closed at the end", when=when, n=len(run.net.socks))
    names = run.names()
    sx.require(names.count("on_close") <= 1 and (names.count("on_close") == 0 or names[-1] == "on_close"), "no on_close between reconnections", when=when)
    cover("ext-double")


def obligations(tier):
    thorough = tier == "thorough"
    seqs = []
    cmax = 4 if thorough else 3
    for c in range(0, cmax + 1):
        for seq in itertools.product(OUTCOMES, repeat=c):
            if c == 4 and len(set(seq)) < 3:
                continue
            for final in ("close", "userclose"):
                seqs.append(dict(seq=list(seq), final=final))
    if thorough:
        for c in range(1, 3):
            for seq in itertools.product(OUTCOMES, repeat=c):
                seqs.append(dict(seq=list(seq), final="close", on_reconnect=False))
                seqs.append(dict(seq=list(seq), final="userclose", ping=True))
                seqs.append(dict(seq=list(seq), final="close", default=True))
    for mo in MID_OUTCOMES:
        for final in ("close", "userclose"):
            seqs.append(dict(seq=[mo], final=final))
            seqs.append(dict(seq=[mo, "refused", mo], final=final))
    for final in ("close", "userclose"):  # a peer that stops answering pings but keeps sending (round 7)
        seqs.append(dict(seq=["pingtimeout-chatty"], final=final))
        seqs.append(dict(seq=["eof", "pingtimeout-chatty"], final=final))
    extra = [dict(seq=["eof", "refused"], final="close", on_reconnect=False), dict(seq=["reset"], final="userclose", on_reconnect=False),
             dict(seq=["eof"], final="close", default=True), dict(seq=["refused", "eof"], final="userclose", default=True),
             dict(seq=["eof", "eof"], final="close", ping=True), dict(seq=["reset", "refused"], final="userclose", ping=True)]
    ext = [dict(seq=list(seq), final=f) for c in range(0, (4 if thorough else 3)) for seq in itertools.product(("refused", "rejected", "eof"), repeat=c) for f in ("close", "userclose")]
    ext += [dict(seq=[l], final="close", close_in_timer=True) for l in ("eof", "refused", "rejected")]
    return [
        Obligation("K-seq", k_seq, seqs + extra,
                   bounds="all sequences of <=%d failed/lost connections over {refused, rejected, end of stream, reset, ping timeout (silent peer; also a peer that keeps sending but never answers pings)} followed by a connection "
                          "ended by a server close frame or by the application's close(); reconnect interval a solver real in (0,20]; option and module-wide "
                          "default; with/without on_reconnect; with/without ping thread" % cmax,
                   must_cover=["seq", "server-close-ends", "user-close-ends"], budget_s=2400 if thorough else 1200, step_budget=100000,
                   kernel=["WebSocketApp.run_forever (reconnect loop)", "handleDisconnect", "setSock", "DispatcherBase.reconnect", "Dispatcher.read"]),
        Obligation("K-close-sleep", k_close_sleep, [dict(lost=l, when=w) for l in ("eof", "refused", "rejected", "reset") for w in ("early", "late")],
                   bounds="first connection lost / refused / rejected; close() from a second thread at 1/4 and 3/4 of the reconnect sleep (interval a solver real)",
                   must_cover=["close-sleep"], step_budget=100000, kernel=["DispatcherBase.reconnect", "WebSocketApp.run_forever (reconnect loop)", "WebSocketApp.close"]),
        Obligation("K-ext-double", k_ext_double, [dict(when=w) for w in ("early", "late")],
                   bounds="external dispatcher; end of stream, and a write by the application at 1/4 / 3/4 of the reconnect interval (solver real) on the dead "
                          "connection, so that the same loss is reported through the read path and the write path", must_cover=["ext-double"], step_budget=100000,
                   kernel=["WrappedDispatcher.send / buffwrite", "handleDisconnect", "WrappedDispatcher.reconnect", "setSock"]),
        Obligation("K-ext", k_ext, ext, bounds="external dispatcher: all sequences of <=2 failed/lost connections over {refused, rejected, end of stream}",
                   must_cover=["ext"], budget_s=1200, step_budget=100000, required=True,
                   kernel=["WrappedDispatcher.read/timeout/reconnect/send", "handleDisconnect", "closed", "setSock"]),
    ]
