"""C05 — frames the RFC forbids are rejected with a protocol error, never delivered; legal ones accepted."""
import bvsym as sx
from bvsym import core
from .envpatch import EnvPatch
from .common import FakeSock, Obligation, cover, new_ws, quiet_logging, ref_len_field, server_frame

PROPERTY = "C05"
EXPLANATION = ("ABNF.validate, _is_valid_close_status, continuous_frame.validate and the receive loop executed on a "
               "symbolic first header byte (all 256 values), every payload-length class, a symbolic 16-bit close code "
               "with a symbolic reason, and symbolic frame histories; the outcome (protocol exception vs delivery) is "
               "compared with an RFC 6455 5.2/5.4/5.5/7.4 predicate written independently.")
ASSUMPTIONS = ["close codes 1012-1014 (registered after RFC 6455, accepted by the code) are don't-care in the oracle",
               "text payloads in P-first/P-seq are ASCII (UTF-8 validity is C06)"]

CTRL = (8, 9, 10)


def _excs():
    from websocket._exceptions import (WebSocketConnectionClosedException, WebSocketPayloadException,
                                       WebSocketProtocolException)
    return WebSocketProtocolException, WebSocketPayloadException, WebSocketConnectionClosedException


def _code_ok(code):
    """RFC 6455 7.4: codes that may appear on the wire (1012-1014 handled by the caller)"""
    return sx.Or(sx.And(code >= 1000, code <= 1003), sx.And(code >= 1007, code <= 1011), sx.And(code >= 3000, code <= 4999))


def p_first(L, form):
    """single frame with an arbitrary first byte on an idle connection"""
    quiet_logging()
    Proto, Payload, Closed = _excs()
    b0 = sx.sym_int("b0", 8)
    fin, rsv, opcode = b0 >> 7, (b0 >> 4) & 7, b0 & 15
    if L >= 2:
        code = sx.sym_int("code", 16)
        # for non-close opcodes the two bytes are ordinary payload: keep them ASCII (UTF-8 validity is C06)
        sx.assume(sx.Or(opcode == 8, sx.And((code >> 8) < 128, (code & 255) < 128)))
        body = sx.to_bytes_be(code, 2) + bytes([0x61] * (L - 2))
    else:
        code = None
        body = bytes([0x61] * L)
    if form == 7:
        lf = bytes([L])
    elif form == 16:
        lf = bytes([126]) + L.to_bytes(2, "big")
    else:
        lf = bytes([127]) + L.to_bytes(8, "big")
    stream = sx.mk_bytes([b0]) + lf + body
    sock = FakeSock([stream, "eof"])
    ws = new_ws(sock)
    try:
        op, fr = ws.recv_data_frame(True)
        res = "frame"
    except Proto:
        res = "proto"
    except Closed:
        res = "closed"
    except (sx.Control, sx.ConcreteFailure, sx.ReplayMismatch):
        raise
    except Exception as e:
        sx.require(False, "receive raised %s" % type(e).__name__, L=L, form=form)
        return
    is_ctrl = opcode >= 8
    bad = sx.Or(rsv != 0,
                sx.Not(sx.Or([opcode == o for o in (0, 1, 2, 8, 9, 10)])),
                sx.And(is_ctrl, sx.Or(fin == 0, L > 125)),
                opcode == 0)  # continuation with no message in progress
    dontcare = False
    if code is not None:
        bad = sx.Or(bad, sx.And(opcode == 8, sx.Not(_code_ok(code)), sx.Not(sx.And(code >= 1012, code <= 1014))))
        dontcare = sx.And(opcode == 8, code >= 1012, code <= 1014)
    elif L == 1:
        bad = sx.Or(bad, opcode == 8)
    sx.require(sx.Or(dontcare, sx.Iff(res == "proto", bad)),
               "protocol exception exactly for frames RFC 6455 forbids (RSV, opcode, control FIN/length, close body, stray continuation)",
               L=L, form=form, got=res)
    if res == "frame":
        cover("delivered")
        sx.require(sx.And(fr.opcode == opcode, fr.fin == fin), "delivered frame is the one sent")
    elif res == "closed":
        # only a non-final data frame may leave the call waiting for more input
        sx.require(sx.Or(bad, sx.And(fin == 0, sx.Or(opcode == 1, opcode == 2))), "only an unfinished message may wait for more input")
        cover("waiting")
    else:
        cover("rejected")


def p_close(n, skip=False, masked=False):
    """close frame with an arbitrary 16-bit status code and an n-byte arbitrary reason"""
    quiet_logging()
    Proto, Payload, Closed = _excs()
    code = sx.sym_int("code", 16)
    reason = sx.sym_bytes("r", n)
    key = sx.sym_bytes("mk", 4) if masked else None  # the library accepts masked inbound frames: judged on the unmasked body
    sock = FakeSock([server_frame(1, 8, sx.to_bytes_be(code, 2) + reason, key), "eof"])
    ws = new_ws(sock, skip_utf8_validation=skip)
    try:
        op, fr = ws.recv_data_frame(True)
        res = "frame"
    except Proto:
        res = "proto"
    except (sx.Control, sx.ConcreteFailure, sx.ReplayMismatch):
        raise
    except Exception as e:
        sx.require(False, "receive raised %s" % type(e).__name__, n=n)
        return
    ok = sx.And(_code_ok(code), sx.utf8_valid(reason) if (n and not skip) else True)
    dontcare = sx.And(code >= 1012, code <= 1014)
    sx.require(sx.Or(dontcare, sx.Iff(res == "frame", ok)),
               "close frame accepted exactly for wire-legal status codes with a well-formed UTF-8 reason", n=n, got=res)
    cover("accepted" if res == "frame" else "rejected")


def _gen_history(k, with_ctrl):
    frames = []
    for i in range(k):
        if with_ctrl:
            opcode = sx.sym_int("op%d" % i, 4)
            sx.assume(sx.Or([opcode == o for o in (0, 1, 2, 9, 10)]))
            fin = sx.sym_int("fin%d" % i, 1)
            sx.assume(sx.Or(opcode < 8, fin == 1))
        else:
            opcode = sx.sym_int("op%d" % i, 2)
            sx.assume(opcode <= 2)
            fin = sx.sym_int("fin%d" % i, 1)
        frames.append((fin, opcode, bytes([0x41 + i])))
    return frames


def p_seq(k, fire, with_ctrl=True):
    """history of k frames (data/continuation with symbolic FIN, pings, pongs) from an idle connection: the first
    frame that breaks the sequencing rules must raise a protocol exception; everything before it and every legal
    history is accepted and delivered in order"""
    quiet_logging()
    Proto, Payload, Closed = _excs()
    frames = _gen_history(k, with_ctrl)
    stream = b""
    for fin, opcode, pl in frames:
        stream = stream + server_frame(fin, opcode, pl)
    sock = FakeSock([stream, "eof"])
    ws = new_ws(sock, fire_cont_frame=fire)
    got, end = [], None
    for _ in range(k + 1):
        try:
            op, fr = ws.recv_data_frame(True)
            got.append((op, fr.data, fr.fin))
        except Proto:
            end = "proto"
            break
        except Closed:
            end = "closed"
            break
        except (sx.Control, sx.ConcreteFailure, sx.ReplayMismatch):
            raise
        except Exception as e:
            sx.require(False, "receive raised %s" % type(e).__name__, k=k)
            return
    # reference: two-state machine (idle / in message); the comparisons below fork, i.e. the oracle is
    # evaluated per concrete history shape while payload-independent
    exp, in_msg, acc, first_op, bad_at = [], False, b"", None, None
    for i, (fin, opcode, pl) in enumerate(frames):
        if opcode >= 8:
            exp.append((opcode, pl, 1))
            continue
        if (opcode == 0) != in_msg:
            bad_at = i
            break
        if not in_msg:
            first_op, acc = opcode, b""
        acc = acc + pl
        if fire:
            exp.append((opcode, pl, fin))
        elif fin == 1:
            exp.append((first_op, acc, 1))
        in_msg = not (fin == 1)
    if bad_at is None:
        sx.require(end == "closed", "RFC-legal history must be accepted (no protocol exception)", k=k, fire=fire, got=str(end))
        cover("legal")
    else:
        sx.require(end == "proto", "sequencing violation must raise a protocol exception", k=k, fire=fire, got=str(end), at=bad_at)
        cover("illegal")
    sx.require(len(got) == len(exp), "number of deliveries before the end", k=k, fire=fire, got=len(got), exp=len(exp))
    for (op, data, fin), (eop, edata, efin) in zip(got, exp):
        sx.require(sx.And(op == eop, data == edata), "deliveries in order with the right opcode and payload", k=k, fire=fire)


def p_ctrl_mid(op, L, fin):
    """control frame of opcode `op`, length L, FIN `fin` arriving in the middle of a fragmented message"""
    quiet_logging()
    Proto, Payload, Closed = _excs()
    body = (b"\x03\xe8" + bytes([0x62] * (L - 2))) if (op == 8 and L >= 2) else bytes([0x62] * L)
    stream = server_frame(0, 1, b"a") + server_frame(fin, op, body) + server_frame(1, 0, b"c")
    sock = FakeSock([stream, "eof"])
    ws = new_ws(sock)
    try:
        r = ws.recv_data_frame(False)
        res = "frame"
    except Proto:
        res = "proto"
    except Closed:
        res = "closed"
    bad = fin == 0 or L > 125 or (op == 8 and L == 1)
    sx.require((res == "proto") == bad, "fragmented or oversized control frame inside a message is rejected; legal one accepted",
               op=op, L=L, fin=fin, got=res)
    cover("mid-" + ("bad" if bad else "ok"))


def p_reconnect(lost):
    """connection 1 ends (EOF) after a non-final fragment or inside a frame; connect() again on the SAME object; the first frame
    of the new connection is judged as the first frame of a connection: continuation rejected, text/binary accepted"""
    quiet_logging()
    Proto, Payload, Closed = _excs()
    from .c03 import HandshakeSock
    import websocket._handshake as HS
    from .common import FakeOs
    if lost == "between-fragments":
        first = server_frame(0, 1, b"ab")
    elif lost == "inside-frame":
        first = bytes([0x81, 5]) + b"ab"
    else:  # inside the second fragment
        first = server_frame(0, 2, b"ab") + bytes([0x00, 4, 0x61])
    b0 = sx.sym_int("b0", 8)
    fin, opcode = b0 >> 7, b0 & 15
    sx.assume(sx.And((b0 >> 4) & 7 == 0, opcode <= 2))
    ep = EnvPatch()
    ep.urandom(lambda k: bytes(range(k)))
    try:
        ws = new_ws(None)
        ws.connect("ws://example.test/a", socket=HandshakeSock(first, []))
        try:
            ws.recv_data()
            sx.require(False, "incomplete message delivered", lost=lost)
            return
        except Closed:
            pass
        if sx.choice("close-between", 2):
            ws.close()
        ws.connect("ws://example.test/a", socket=HandshakeSock(sx.cat(sx.to_bytes_be(b0, 1), bytes([2]), b"xy"), []))
        out = None
        try:
            out = ws.recv_data()
            res = "ok"
        except Proto:
            res = "proto"
        except Closed:
            res = "closed"
        except (sx.Control, sx.ConcreteFailure, sx.ReplayMismatch):
            raise
        except Exception as e:
            sx.require(False, "receive on the re-connected object raised %s" % type(e).__name__, lost=lost)
            return
    finally:
        ep.restore()
    if opcode == 0:
        sx.require(res == "proto", "a continuation frame first on a NEW connection of the same object is rejected (no message is in progress)",
                   lost=lost, got=res)
        cover("re-rejected")
    elif fin == 1:
        sx.require(res == "ok", "a text/binary frame first on a new connection of the same object is accepted", lost=lost, got=res)
        if res == "ok":
            sx.require(sx.And(out[0] == opcode, out[1] == b"xy"), "and delivered with its own opcode and payload only", lost=lost)
        cover("re-accepted")
    else:
        sx.require(res == "closed", "a non-final first fragment on a new connection waits for more (then end of stream)", lost=lost, got=res)
        cover("re-waiting")


def p_resume(form, masked):
    """a legal frame with a 16-/64-bit length whose header is interrupted by a receive timeout (every cut position) is ACCEPTED
    after the retry, and so is the frame that follows (C02's R-resume, shared)"""
    from .c02 import r_resume
    return r_resume(form, masked)


def p_resume2(form):
    from .c02 import r_resume2
    return r_resume2(form)


def obligations(tier):
    thorough = tier == "thorough"
    first = [dict(L=L, form=7) for L in (0, 1, 2, 3, 125)] + [dict(L=L, form=16) for L in (0, 2, 125, 126, 300)] + \
            [dict(L=L, form=64) for L in (2, 126)]
    ks = (1, 2, 3, 4, 5) if thorough else (1, 2, 3, 4)
    seq = [dict(k=k, fire=f) for k in ks for f in (False, True)]
    if thorough:
        seq.append(dict(k=6, fire=False, with_ctrl=False))
        seq.append(dict(k=6, fire=True, with_ctrl=False))
        seq.append(dict(k=7, fire=False, with_ctrl=False))
    mid = [dict(op=op, L=L, fin=fin) for op in (8, 9, 10) for L in (0, 1, 2, 125, 126) for fin in (0, 1)]
    return [
        Obligation("P-first", p_first, first,
                   bounds="all 256 first-byte values x payload lengths {0,1,2,3,125} (7-bit), {0,2,125,126,300} (16-bit), {2,126} (64-bit); "
                          "close code a 16-bit variable where the body has one",
                   must_cover=["delivered", "rejected", "waiting"], budget_s=900,
                   kernel=["ABNF.validate", "ABNF._is_valid_close_status", "continuous_frame.validate", "WebSocket.recv_data_frame"]),
        Obligation("P-close", p_close, [dict(n=n) for n in range(0, 5 if thorough else 4)] + [dict(n=n, skip=True) for n in (0, 1, 2)] + [dict(n=n, masked=True) for n in (0, 1)],
                   bounds="all 65536 status codes (one 16-bit variable) x reasons of 0..%d arbitrary bytes" % (4 if thorough else 3),
                   must_cover=["accepted", "rejected"], budget_s=900, kernel=["ABNF.validate", "_is_valid_close_status", "validate_utf8"]),
        Obligation("P-seq", p_seq, seq, bounds="all histories of k<=%d frames over {text,binary,continuation}xFIN, ping, pong from an idle "
                   "connection; per-fragment delivery off and on" % max(ks), must_cover=["legal", "illegal"], budget_s=1800,
                   kernel=["continuous_frame.validate", "continuous_frame.add", "is_fire", "extract", "recv_data_frame"]),
        Obligation("P-mid", p_ctrl_mid, mid, bounds="close/ping/pong with L in {0,1,2,125,126}, FIN 0/1 between two fragments of a message",
                   must_cover=["mid-bad", "mid-ok"], kernel=["ABNF.validate", "recv_data_frame"]),
        Obligation("P-resume", p_resume, [dict(form=f, masked=m) for f in (16, 64) for m in (0, 1)],
                   bounds="legal 16-/64-bit length frames with one receive timeout after every possible number of header bytes, then retried",
                   must_cover=["resumed"], kernel=["frame_buffer.recv_frame (stage flags)", "recv_length", "ABNF.validate"]),
        Obligation("P-resume2", p_resume2, [dict(form=f) for f in (16, 64)],
                   bounds="as P-resume with two partial reads before the timeout", must_cover=["resumed2"],
                   kernel=["frame_buffer.recv_frame (stage flags)", "recv_strict"]),
        Obligation("P-reconnect", p_reconnect, [dict(lost=l) for l in ("between-fragments", "inside-frame", "inside-second-fragment")],
                   bounds="connection lost (end of stream) after a non-final fragment / inside a frame / inside a second fragment, connect() "
                          "again on the same object with or without close() in between (solver choice); first frame of the new connection: "
                          "opcode {cont,text,binary} x FIN symbolic", must_cover=["re-rejected", "re-accepted", "re-waiting"],
                   kernel=["WebSocket.connect", "WebSocket._recv", "frame_buffer", "continuous_frame.validate"]),
    ]
