"""C09 — a connection is reported established only after a valid upgrade response."""
import base64
import hashlib
import itertools

import bvsym as sx
from bvsym import core
import simnet
from simnet import Kernel, Net, accept_for
from .envpatch import EnvPatch
from .common import Obligation, cover, quiet_logging, server_frame

PROPERTY = "C09"
EXPLANATION = ("_handshake._validate executed on SYMBOLIC header strings (ASCII SymStr: Upgrade, Connection, "
               "Sec-WebSocket-Accept, key, subprotocol) against the RFC 6455 4.1 acceptance rule; WebSocket.connect / "
               "create_connection / handshake / _get_resp_headers / read_headers executed over the fake network with a "
               "symbolic 3-digit status code, catalogued header variants, accept values for this / another / no key, "
               "redirect chains against every limit, and end of stream or timeout at a symbolic byte position of the response.")
ASSUMPTIONS = simnet.ASSUMPTIONS + [
    "H-val: hashlib.sha1 and base64 are replaced by an injective stand-in (identity) and hmac.compare_digest by ==: the property "
    "needs 'accept is a function of the key', not SHA-1 itself (the real digest is used in H-conn)",
    "accept comparison up to ASCII case is the implementation's documented reading (its own test relies on it)",
    "header strings are ASCII (SymStr bound)",
]

GUID = "258EAFA5-E914-47DA-95CA-C5AB0DC85B11"


class _Sha:
    def __init__(self, v):
        self.v = v

    def digest(self):
        return self.v


class FakeHashlib:
    sha1 = staticmethod(lambda v: _Sha(v))


class FakeHmac:
    compare_digest = staticmethod(lambda a, b: a == b)


def _tokens(s):
    return [t.strip().lower() for t in s.split(",")]


def _near(base, name, at, k, mode):
    """`base` with k symbolic ASCII characters inserted at (mode 'ins') or replacing (mode 'rep') position `at`"""
    sym = sx.sym_str(name, k)
    if mode == "ins":
        return base[:at] + sym + base[at:]
    return base[:at] + sym + base[at + k:]


def h_val(field, n, offered=0, at=0, mode=None):
    """_validate with one symbolic field of length n, the others correct"""
    quiet_logging()
    import websocket._handshake as HS
    ep = EnvPatch()
    ep.handshake_crypto(sha1=FakeHashlib.sha1, compare_digest=FakeHmac.compare_digest, b64=lambda b: b)
    try:
        key = sx.sym_str("key", 3) if field in ("accept", "key") else "abc"
        if field in ("accept", "key"):
            kb = key.encode()
            for i in range(3):  # keys are base64 text: letters and digits
                sx.assume(sx.Or(sx.And(kb[i] >= 48, kb[i] <= 57), sx.And(kb[i] >= 65, kb[i] <= 90), sx.And(kb[i] >= 97, kb[i] <= 122)))
        good_accept = key + GUID
        headers = {"upgrade": "websocket", "connection": "Upgrade", "sec-websocket-accept": good_accept}
        subs = None
        if field == "upgrade":
            headers["upgrade"] = sx.sym_str("u", n) if mode is None else _near("websocket", "u", at, n, mode)
        elif field == "connection":
            headers["connection"] = sx.sym_str("c", n) if mode is None else _near("Upgrade", "c", at, n, mode)
        elif field == "accept":
            tail = sx.sym_str("a", n)
            headers["sec-websocket-accept"] = tail + good_accept[len(tail):] if n <= len(good_accept) else tail
        elif field == "accept-missing":
            del headers["sec-websocket-accept"]
        elif field == "subproto":
            subs = ["chat", "Ab"][:offered]
            headers["sec-websocket-protocol"] = sx.sym_str("p", n)
        elif field == "subproto-missing":
            subs = ["chat"]
        ok, sub = sx.unit(HS, "_validate")(headers, key, subs)
        # ---- reference (RFC 6455 4.1, written over the same symbolic values)
        up = headers.get("upgrade")
        co = headers.get("connection")
        ac = headers.get("sec-websocket-accept")
        exp = bool(up) and bool(co) and ("websocket" in _tokens(up)) and ("upgrade" in _tokens(co))
        if exp and subs:
            sp = headers.get("sec-websocket-protocol")
            exp = bool(sp) and (sp.lower() in [s.lower() for s in subs])
        if exp:
            exp = bool(ac) and bool(ac.lower() == good_accept.lower())
        sx.require(bool(ok) == exp, "handshake response accepted exactly when Upgrade/Connection announce the upgrade, the accept value is the "
                   "one derived from the key sent, and the subprotocol is one of those offered", field=field, n=n, got=bool(ok))
        if ok and subs:
            sx.require(sub == headers["sec-websocket-protocol"].lower(), "selected subprotocol reported", field=field)
        cover("accepted" if ok else "rejected")
    finally:
        ep.restore()


# ------------------------------------------------------------------------------------------------ H-conn
UPGRADE_VARIANTS = {"right": "websocket", "upper": "WebSocket", "list": "h2c, websocket", "spaces": "  websocket ", "wrong": "websocketx",
                    "missing": None, "other": "h2c"}
CONN_VARIANTS = {"right": "Upgrade", "lower": "upgrade", "list": "keep-alive, Upgrade", "wrong": "keep-alive", "missing": None}


def _response(status_line, upgrade, connection, accept, subproto, extra=()):
    lines = [status_line]
    if upgrade is not None:
        lines.append("Upgrade: " + upgrade)
    if connection is not None:
        lines.append("Connection: " + connection)
    if accept is not None:
        lines.append("Sec-WebSocket-Accept: " + accept)
    if subproto is not None:
        lines.append("Sec-WebSocket-Protocol: " + subproto)
    lines += list(extra)
    return ("\r\n".join(lines) + "\r\n\r\n").encode()


def _mk(specs, outcomes=None):
    k = Kernel(step_budget=2000)
    net = Net(k, specs, outcomes)
    simnet.install(k, net)
    return k, net


def _connect(k, net, via, **opts):
    """returns (ws or None, exception or None)"""
    import websocket
    from websocket._exceptions import WebSocketException
    import socket as _s
    ws = None
    try:
        try:
            if via == "create_connection":
                ws = websocket.create_connection("ws://h.example/x", timeout=5, **opts)
            else:
                ws = websocket.WebSocket()
                ws.settimeout(5)
                ws.connect("ws://h.example/x", **opts)
            return ws, None, ws
        except (WebSocketException, _s.timeout, TimeoutError, ConnectionError) as e:
            return None, e, ws
        except (sx.Control, sx.ConcreteFailure, sx.ReplayMismatch):
            raise
        except Exception as e:
            sx.require(False, "connect raised undocumented %s" % type(e).__name__)
            return None, e, ws
    finally:
        k.shutdown()
        simnet.uninstall()


def h_conn(upg, conn, acc, sub, via="connect"):
    """one response with a SYMBOLIC 3-digit status code and catalogued header variants"""
    quiet_logging()
    d = sx.sym_str("status", 3)
    db = d.encode()
    sx.assume(sx.And(db[0] >= 49, db[0] <= 53, db[1] >= 48, db[1] <= 57, db[2] >= 48, db[2] <= 57))  # 100..599
    offered = ["chat", "superchat"] if sub != "none" else None
    keys_seen = []

    def respond(server, head, key):
        keys_seen.append(key)
        a = {"right": accept_for(key), "otherkey": accept_for("AAAAAAAAAAAAAAAAAAAAAA=="), "garbled": accept_for(key)[:-2] + "zz",
             "missing": None, "upper": accept_for(key).upper()}[acc]
        sp = {"none": None, "right": "chat", "rightcase": "CHAT", "wrong": "mqtt", "missing": None}[sub]
        resp = (b"HTTP/1.1 " + db + b" X\r\n" + _response("", UPGRADE_VARIANTS[upg], CONN_VARIANTS[conn], a, sp)[2:])
        return resp

    k, net = _mk([{"respond": respond}])
    opts = {"subprotocols": offered} if offered else {}
    ws, exc, obj = _connect(k, net, via, redirect_limit=0, **opts)
    is101 = sx.And(db[0] == 49, db[1] == 48, db[2] == 49)
    hdr_ok = upg in ("right", "upper", "list", "spaces") and conn in ("right", "lower", "list")
    acc_ok = acc in ("right", "upper")
    sub_ok = sub in ("none", "right", "rightcase")
    should = sx.And(is101, hdr_ok and acc_ok and sub_ok)
    returned = ws is not None
    if returned:
        sx.require(should, "connect() returned a connected object although the response is not a valid upgrade (status / Upgrade / Connection / "
                   "accept / subprotocol)", upg=upg, conn=conn, acc=acc, sub=sub, via=via)
        sx.require(ws.connected, "returned object reports connected")
        cover("connected")
    else:
        is3xx = sx.Or([sx.And(db[0] == 51, db[1] == 48, db[2] == x) for x in (49, 50, 51, 55, 56)])
        sx.require(sx.Not(should), "a valid upgrade response must be accepted", upg=upg, conn=conn, acc=acc, sub=sub, via=via,
                   exc=type(exc).__name__)
        sx.require(all(s.closed for s in net.socks), "a failed connect closes the transport", upg=upg, acc=acc, via=via)
        if obj is not None:
            sx.require(not obj.connected and obj.sock is None, "a failed connect leaves the object unconnected", via=via)
        cover("refused")


HEAD_KINDS = {"full": (1, 1, 1, 1), "none": (0, 0, 0, 0), "accept-only": (0, 0, 1, 0), "upg-conn": (1, 1, 0, 0), "no-sub": (1, 1, 1, 0), "sub-only": (0, 0, 0, 1)}


def h_heads(s1, k1, s2, k2, sub, via="connect"):
    """the server answers with TWO response heads back to back (e.g. an interim 1xx head, then the final one).  connect() may
    return connected only on the strength of ONE head that is a complete valid 101 by itself (preceded, at most, by interim 1xx
    heads); fields of different heads are never combined, and a valid first head is accepted."""
    quiet_logging()
    offered = ["chat", "superchat"] if sub else None

    def head(status, kind, key):
        u, c, a, p = HEAD_KINDS[kind]
        return _response("HTTP/1.1 %d X" % status, "websocket" if u else None, "Upgrade" if c else None, accept_for(key) if a else None,
                         "chat" if (p and sub) else None)

    def respond(server, hd, key):
        return head(s1, k1, key) + head(s2, k2, key)

    k, net = _mk([{"respond": respond}])
    opts = {"subprotocols": offered} if offered else {}
    ws, exc, obj = _connect(k, net, via, redirect_limit=0, **opts)

    def valid(status, kind):
        u, c, a, p = HEAD_KINDS[kind]
        return status == 101 and u and c and a and (p or not sub)
    ok1 = valid(s1, k1)
    ok2 = valid(s2, k2) and s1 in (100, 102, 103)
    info = dict(s1=s1, k1=k1, s2=s2, k2=k2, sub=sub, via=via)
    if ws is not None:
        sx.require(ok1 or ok2, "connect() returned connected although NO single response head is a complete valid upgrade (fields of an interim "
                   "head and of the final head must not be combined)", **info)
        if sub:
            sx.require(ws.subprotocol == "chat", "negotiated subprotocol is the one selected by the accepted head", got=str(ws.subprotocol), **info)
        cover("heads-connected")
    else:
        sx.require(not ok1, "a valid upgrade response must be accepted", exc=type(exc).__name__, **info)
        sx.require(all(sk.closed for sk in net.socks), "a failed connect closes the transport", **info)
        cover("heads-refused")


def h_redirect(chain, limit, last):
    """chain of `chain` redirect responses followed by `last` ('ok' = valid 101, 'bad' = 403); redirect_limit = limit"""
    quiet_logging()
    n_req = [0]

    def respond(server, head, key):
        i = n_req[0]
        n_req[0] += 1
        if i < chain:
            code = (301, 302, 303, 307, 308)[i % 5]
            return ("HTTP/1.1 %d Moved\r\nLocation: ws://h%d.example/x\r\n\r\n" % (code, i + 1)).encode()
        if last == "ok":
            return _response("HTTP/1.1 101 Switching Protocols", "websocket", "Upgrade", accept_for(key), None)
        return b"HTTP/1.1 403 Forbidden\r\n\r\n"

    k, net = _mk([{"respond": respond}])
    ws, exc, obj = _connect(k, net, "connect", redirect_limit=limit)
    followed = n_req[0] - 1
    sx.require(followed <= limit, "redirects are followed at most redirect_limit times", chain=chain, limit=limit, followed=followed)
    if ws is not None:
        sx.require(chain <= limit and last == "ok", "a redirect response is never itself success / connected only after a final 101",
                   chain=chain, limit=limit, last=last, status=str(ws.status))
        sx.require(ws.status == 101, "status of a connected object is 101", chain=chain, limit=limit, status=str(ws.status))
        cover("redirect-connected")
    else:
        sx.require(not (chain <= limit and last == "ok"), "a chain within the limit ending in a valid upgrade must succeed", chain=chain, limit=limit)
        sx.require(all(s.closed for s in net.socks), "every transport of a failed redirect chain is closed", chain=chain, limit=limit)
        sx.require(obj is None or (not obj.connected and obj.sock is None), "failed connect leaves the object unconnected")
        cover("redirect-refused")
    sx.require(sum(1 for s in net.socks if not s.closed) <= 1, "at most the final transport stays open")


def h_fault(kind):
    """valid 101 response cut by end of stream / silence at a symbolic byte position"""
    quiet_logging()
    resp_len = [0]
    pos_holder = []

    def respond(server, head, key):
        resp = _response("HTTP/1.1 101 Switching Protocols", "websocket", "Upgrade", accept_for(key), None)
        resp_len[0] = len(resp)
        pos = sx.choice("cut", len(resp))  # 0 .. len-1 bytes delivered
        pos_holder.append(pos)
        if kind == "eof":
            server.k.after(0, lambda: server.deliver("EOF"))
        return resp[:pos]

    k, net = _mk([{"respond": respond}])
    ws, exc, obj = _connect(k, net, "connect")
    sx.require(ws is None, "a truncated response must not yield a connected object", kind=kind, cut=pos_holder[0] if pos_holder else -1)
    sx.require(all(s.closed for s in net.socks), "transport closed after a failed handshake", kind=kind)
    sx.require(obj is None or (not obj.connected and obj.sock is None), "object stays unconnected", kind=kind)
    cover("fault")


def h_again(bad, between):
    """a multi-step history on ONE object: a first connect() succeeds; (optionally after close()/shutdown()) connect() is called again
    and THAT handshake is refused.  The second call raises, the transport IT opened is closed, and the object cannot be used to
    write to it (nothing of the earlier success counts for the new attempt)."""
    quiet_logging()
    import websocket
    from websocket._exceptions import WebSocketException
    import socket as _s

    def ok(server, head, key):
        return _response("HTTP/1.1 101 Switching Protocols", "websocket", "Upgrade", accept_for(key), None)

    def refuse(server, head, key):
        if bad == "403":
            return b"HTTP/1.1 403 Forbidden\r\nContent-Length: 0\r\n\r\n"
        if bad == "accept":
            return _response("HTTP/1.1 101 Switching Protocols", "websocket", "Upgrade", accept_for("AAAAAAAAAAAAAAAAAAAAAA=="), None)
        if bad == "upgrade":
            return _response("HTTP/1.1 101 Switching Protocols", "h2c", "Upgrade", accept_for(key), None)
        if bad == "eof":
            server.k.after(0, lambda: server.deliver("EOF"))
            return b"HTTP/1.1 101 Switching Proto"
        return b"HTTP/1.1 302 Found\r\nLocation: ws://h.example/again\r\n\r\n"  # redirect_limit=0: too many redirects

    k, net = _mk([{"respond": ok}, {"respond": refuse}, {"respond": refuse}])
    raised, wrote = None, None
    try:
        ws = websocket.WebSocket()
        ws.settimeout(5)
        ws.connect("ws://h.example/x")
        sx.require(ws.connected, "first connect succeeds")
        if between == "close":
            ws.close()
        elif between == "shutdown":
            ws.shutdown()
        try:
            ws.connect("ws://h.example/x", redirect_limit=0)
        except (WebSocketException, _s.timeout, TimeoutError, ConnectionError) as e:
            raised = e
        except (sx.Control, sx.ConcreteFailure, sx.ReplayMismatch):
            raise
        except Exception as e:
            sx.require(False, "second connect raised undocumented %s" % type(e).__name__, bad=bad, between=between)
            return
        second = net.socks[1] if len(net.socks) > 1 else None
        before = len(net.client_frames)
        sent_before = len(second.sent) if second is not None else 0
        try:
            ws.send("x")
            wrote = "sent"
        except (sx.Control, sx.ConcreteFailure, sx.ReplayMismatch):
            raise
        except Exception as e:
            wrote = type(e).__name__
        nframes = len(net.client_frames) - before
        nbytes = (len(second.sent) - sent_before) if second is not None else 0
    finally:
        k.shutdown()
        simnet.uninstall()
    sx.require(raised is not None, "a refused handshake on a re-used object must raise (the earlier success does not count)", bad=bad, between=between)
    sx.require(second is not None and second.closed, "the transport opened by the failed connect() is closed", bad=bad, between=between)
    sx.require(ws.sock is not second or second is None, "the object does not keep the transport of the failed connect()", bad=bad, between=between)
    sx.require(nframes == 0 and nbytes == 0,
               "nothing can be sent over the transport of a refused handshake", bad=bad, between=between, wrote=wrote)
    cover("again")


def obligations(tier):
    thorough = tier == "thorough"
    val = []
    for n in range(0, (10 if thorough else 7)):
        val.append(dict(field="upgrade", n=n))
        val.append(dict(field="connection", n=n))
    # near misses: the right token with 1..2 (3) symbolic characters inserted / substituted at every position
    for base, field in (("websocket", "upgrade"), ("Upgrade", "connection")):
        for k in ((1, 2, 3) if thorough else (1, 2)):
            for at in range(0, len(base) + 1):
                val.append(dict(field=field, n=k, at=at, mode="ins"))
                if at + k <= len(base):
                    val.append(dict(field=field, n=k, at=at, mode="rep"))
    for n in (0, 1, 2, 3, 5):
        val.append(dict(field="accept", n=n))
    val.append(dict(field="accept-missing", n=0))
    val.append(dict(field="key", n=0))
    for n in (0, 1, 2, 4):
        for off in (1, 2):
            val.append(dict(field="subproto", n=n, offered=off))
    val.append(dict(field="subproto-missing", n=0))
    conn = [dict(upg=u, conn=c, acc=a, sub=s) for u in UPGRADE_VARIANTS for c in CONN_VARIANTS for a in ("right", "otherkey", "garbled", "missing", "upper")
            for s in ("none", "right", "rightcase", "wrong", "missing")
            if thorough or (u in ("right", "list", "wrong", "missing") and c in ("right", "list", "wrong", "missing")) or (a == "right" and s == "none")]
    conn += [dict(upg="right", conn="right", acc=a, sub=s, via="create_connection") for a in ("right", "otherkey", "missing") for s in ("none", "wrong")]
    heads = [dict(s1=a, k1=ka, s2=b, k2=kb, sub=sub) for a in (100, 101, 102, 103, 200) for ka in HEAD_KINDS for b in (101, 200) for kb in HEAD_KINDS
             for sub in (False, True) if (sub or ("sub" not in ka and "sub" not in kb))]
    heads += [dict(s1=100, k1=ka, s2=101, k2=kb, sub=True, via="create_connection") for ka in HEAD_KINDS for kb in HEAD_KINDS]
    red = [dict(chain=c, limit=l, last=la) for c in range(0, 5) for l in range(0, 4) for la in ("ok", "bad")]
    return [
        Obligation("H-val", h_val, val, bounds="Upgrade / Connection: every ASCII string of length 0..%d, plus the right token with 1..%d symbolic characters inserted or "
                   "substituted at every position (separators, spaces, case, look-alikes); accept with a symbolic prefix of 0..5 chars over a symbolic "
                   "3-char key; subprotocol 0..4 chars against 1..2 offered" % (9 if thorough else 6, 3 if thorough else 2),
                   must_cover=["accepted", "rejected"], budget_s=2400, kernel=["_handshake._validate"]),
        Obligation("H-conn", h_conn, conn, bounds="status code symbolic over 100..599 (3 symbolic digits) x catalogued Upgrade / Connection variants (right, case, "
                   "token list, spaces, wrong, missing) x accept {this key, another key, garbled, missing, upper-case} x subprotocol {not offered, right, "
                   "case, wrong, missing}; connect() and create_connection()", must_cover=["connected", "refused"], budget_s=2400, step_budget=100000,
                   kernel=["WebSocket.connect", "create_connection", "_handshake.handshake", "_get_resp_headers", "_validate", "_http.read_headers"]),
        Obligation("H-heads", h_heads, heads, bounds="two response heads back to back: first status {100,101,102,103,200}, second {101,200}; each head "
                   "carrying all / none / only the accept / only Upgrade+Connection / all but the subprotocol / only the subprotocol; subprotocols offered or not",
                   must_cover=["heads-connected", "heads-refused"], step_budget=100000,
                   kernel=["_http.read_headers", "_handshake._get_resp_headers", "_validate", "WebSocket.connect"]),
        Obligation("H-redirect", h_redirect, red, bounds="redirect chains of length 0..4 against redirect_limit 0..3, ending in a valid 101 or a 403",
                   must_cover=["redirect-connected", "redirect-refused"], step_budget=100000, kernel=["WebSocket.connect (redirect loop)"]),
        Obligation("H-again", h_again, [dict(bad=b, between=w) for b in ("403", "accept", "upgrade", "eof", "redirect") for w in ("nothing", "close", "shutdown")],
                   bounds="one object: successful connect(), then nothing / close() / shutdown(), then a second connect() whose handshake is refused in 5 ways "
                          "(403, accept for another key, wrong Upgrade, truncated head + end of stream, redirect beyond the limit), then send()",
                   must_cover=["again"], kernel=["WebSocket.connect (cleanup path)", "handshake", "WebSocket.send"]),
        Obligation("H-fault", h_fault, [dict(kind="eof"), dict(kind="silence")], bounds="valid 101 response truncated at EVERY byte position, followed by "
                   "end of stream or by silence (socket timeout)", must_cover=["fault"], step_budget=100000,
                   kernel=["WebSocket.connect (failure cleanup)", "_socket.recv_line", "_socket.recv"]),
    ]
