#!/usr/bin/env python3
"""Mutation self-test (not a registered check).  Applies small source mutants — one per mechanism named in the
properties' anchors — to a scratch copy of /repo/websocket under /tmp, verifies that the repository's own tests
still pass on the mutant, and that the corresponding check exits 1 with a replayed VIOLATION.

usage: selftest/mutants.py [--only ID,...] [--prop C01,...] [--jobs N] [--tier quick]
"""
import argparse
import json
import os
import shutil
import subprocess
import sys
import tempfile
import time
from concurrent.futures import ThreadPoolExecutor

HERE = os.path.dirname(os.path.dirname(os.path.abspath(__file__)))
REPO = "/repo"

# id, property, file, old, new, [obligations that should catch it]
M = []


def m(mid, prop, file, old, new, only=None):
    M.append(dict(id=mid, prop=prop, file=file, old=old, new=new, only=only))


# ---- C01
m("len7-le", "C01", "_abnf.py", "if length < ABNF.LENGTH_7:", "if length <= ABNF.LENGTH_7:")
m("len16-le", "C01", "_abnf.py", "elif length < ABNF.LENGTH_16:", "elif length <= ABNF.LENGTH_16:", "F-hdr,F-big")
m("len16-endian", "C01", "_abnf.py", 'frame_header += struct.pack("!H", length)', 'frame_header += struct.pack("<H", length)')
m("mask-bit", "C01", "_abnf.py", "frame_header += chr(self.mask_value << 7 | length)", "frame_header += chr(self.mask_value << 6 | length)")
m("mask-mod", "C01", "_abnf.py", "mask_value[: datalen % 4]", "mask_value[: datalen % 3]")
m("key-twice", "C01", "_abnf.py", "        mask_key = self.get_mask_key(4)\n", "        mask_key = self.get_mask_key(4)\n        mask_key = self.get_mask_key(4) if len(self.data) == 77 else mask_key\n")
m("ret-payload", "C01", "_core.py", "        data = frame.format()\n        length = len(data)", "        data = frame.format()\n        length = len(frame.data)")
m("rsv-leak", "C01", "_abnf.py", "            | self.rsv3 << 4\n", "            | (self.rsv3 | (len(self.data) == 100)) << 4\n")
m("close-status-swap", "C01", "_core.py", '            self.send(struct.pack("!H", status) + reason, ABNF.OPCODE_CLOSE)\n            sock_timeout', '            self.send(struct.pack("<H", status) + reason, ABNF.OPCODE_CLOSE)\n            sock_timeout')
# ---- C02
m("len64-short", "C02", "_abnf.py", 'self.length = struct.unpack("!Q", v)[0]', 'self.length = struct.unpack("!Q", v)[0] & 0xFFFFFFFF', "R-any")
m("len16-swap", "C02", "_abnf.py", 'self.length = struct.unpack("!H", v)[0]', 'self.length = struct.unpack("<H", v)[0]')
m("fin-bit", "C02", "_abnf.py", "fin = b1 >> 7 & 1", "fin = b1 >> 6 & 1")
m("unmask-skip", "C02", "_abnf.py", "            if has_mask:\n                payload = ABNF.mask(mask_value, payload)", "            if has_mask and length != 3:\n                payload = ABNF.mask(mask_value, payload)")
m("opcode-nib", "C02", "_abnf.py", "opcode = b1 & 0xF", "opcode = b1 & 0x7")
# ---- C03
m("strict-drop", "C03", "_abnf.py", "self.recv_buffer = [unified[bufsize:]]", "self.recv_buffer = [unified[bufsize + 1:]]")
m("stage-clear-early", "C03", "_abnf.py", "            # Payload\n            payload = self.recv_strict(length)", "            # Payload\n            self.clear()\n            payload = self.recv_strict(length)")
m("strict-overread", "C03", "_abnf.py", "bytes_ = self.recv(min(16384, shortage))", "bytes_ = self.recv(min(16384, shortage + 1))")
m("line-read2", "C03", "_socket.py", "        c = recv(sock, 1)\n", "        c = recv(sock, 2 if line and line[-1] == b'\\r' else 1)\n        c, rest = c[:1], c[1:]\n")
# ---- C04
m("cont-replace", "C04", "_abnf.py", "            self.cont_data[1] += frame.data", "            self.cont_data[1] = frame.data + self.cont_data[1]")
m("first-opcode", "C04", "_abnf.py", "            self.cont_data = [frame.opcode, frame.data]", "            self.cont_data = [ABNF.OPCODE_TEXT, frame.data]")
m("ctrl-resets", "C04", "_core.py", "            elif frame.opcode == ABNF.OPCODE_PONG:\n                if control_frame:", "            elif frame.opcode == ABNF.OPCODE_PONG:\n                self.cont_frame.cont_data = None\n                if control_frame:")
# ---- C05
m("rsv-ignore", "C05", "_abnf.py", "if self.rsv1 or self.rsv2 or self.rsv3:", "if self.rsv1 or self.rsv2:")
m("close-1005", "C05", "_abnf.py", "    STATUS_UNEXPECTED_CONDITION,\n    STATUS_SERVICE_RESTART,", "    STATUS_UNEXPECTED_CONDITION,\n    STATUS_STATUS_NOT_AVAILABLE,\n    STATUS_SERVICE_RESTART,")
m("close-range", "C05", "_abnf.py", "(3000 <= code < 5000)", "(3000 <= code <= 5000)")
m("cont-idle", "C05", "_abnf.py", "        if not self.recving_frames and frame.opcode == ABNF.OPCODE_CONT:\n            raise", "        if False and frame.opcode == ABNF.OPCODE_CONT:\n            raise")
m("newmsg-inside", "C05", "_abnf.py", "        if self.recving_frames and frame.opcode in (\n            ABNF.OPCODE_TEXT,\n            ABNF.OPCODE_BINARY,\n        ):", "        if self.recving_frames and frame.opcode in (\n            ABNF.OPCODE_TEXT,\n        ):")
m("close-len1", "C05", "_abnf.py", "if l == 1 or l >= 126:", "if l >= 126:")
m("pong-frag-ok", "C05", "_abnf.py", "if self.opcode in (ABNF.OPCODE_CLOSE, ABNF.OPCODE_PING, ABNF.OPCODE_PONG):", "if self.opcode in (ABNF.OPCODE_CLOSE, ABNF.OPCODE_PING):")
# ---- C06
m("utf8-surrogate", "C06", "_utils.py", None, None)  # filled below (table edit)
m("utf8-end", "C06", "_utils.py", "        return state == _UTF8_ACCEPT", "        return True")
m("extract-novalidate-bin", "C06", "_abnf.py", "            and data[0] == ABNF.OPCODE_TEXT\n", "            and data[0] == ABNF.OPCODE_TEXT\n            and len(frame.data) != 3\n")
m("close-reason-skip", "C06", "_abnf.py", "if l > 2 and not skip_utf8_validation and not validate_utf8(self.data[2:]):", "if l > 3 and not skip_utf8_validation and not validate_utf8(self.data[2:]):")
# ---- C07
m("pong-empty", "C07", "_core.py", "                    self.pong(frame.data)", "                    self.pong(frame.data if len(frame.data) != 2 else b'')")
m("pong-after-return", "C07", "_core.py", "                if len(frame.data) < 126:\n                    self.pong(frame.data)", "                if len(frame.data) < 126 and not control_frame:\n                    self.pong(frame.data)")
m("pong-for-pong", "C07", "_core.py", "            elif frame.opcode == ABNF.OPCODE_PONG:\n                if control_frame:", "            elif frame.opcode == ABNF.OPCODE_PONG:\n                if self.cont_frame.recving_frames:\n                    self.pong(frame.data)\n                if control_frame:")
# ---- C12
m("send-noloop", "C12", "_core.py", "            while data:\n                l = self._send(data)\n                data = data[l:]", "            l = self._send(data)\n            data = data[l:]\n            if data:\n                self._send(data)")
m("lock-per-write", "C12", "_core.py", "        with self.lock:\n            while data:\n                l = self._send(data)\n                data = data[l:]", "        while data:\n            with self.lock:\n                l = self._send(data)\n            data = data[l:]")
m("recv-nolock", "C12", "_core.py", "        with self.readlock:\n            opcode, data = self.recv_data()", "        if True:\n            opcode, data = self.recv_data()")


def _utf8_table_mutant(src):
    # allow ED A0..BF (surrogates): change the class of byte 0xED from 4 to 3 in the table's first part
    lines = src.split("\n")
    start = [i for i, l in enumerate(lines) if "_UTF8D = [" in l][0]
    # the table lists one number per line after the opening; entry for byte 0xED is at index 0xED
    idx, k = 0, start + 1
    while k < len(lines):
        tok = lines[k].strip().rstrip(",")
        if tok.isdigit():
            if idx == 0xED:
                assert tok == "4", tok
                lines[k] = lines[k].replace("4", "3")
                return "\n".join(lines)
            idx += 1
        k += 1
    raise AssertionError("table entry not found")


def apply(mut, dst):
    p = os.path.join(dst, "websocket", mut["file"])
    s = open(p).read()
    if mut["id"] == "utf8-surrogate":
        s2 = _utf8_table_mutant(s)
    else:
        if s.count(mut["old"]) != 1:
            raise RuntimeError("mutant %s: pattern occurs %d times" % (mut["id"], s.count(mut["old"])))
        s2 = s.replace(mut["old"], mut["new"])
    open(p, "w").write(s2)


def run_one(mut, tier):
    d = tempfile.mkdtemp(prefix="vmut_%s_" % mut["id"], dir="/tmp")
    t0 = time.time()
    try:
        shutil.copytree(os.path.join(REPO, "websocket"), os.path.join(d, "websocket"))
        for f in ("setup.py", "setup.cfg", "README.md"):
            if os.path.exists(os.path.join(REPO, f)):
                shutil.copy(os.path.join(REPO, f), d)
        try:
            apply(mut, d)
        except Exception as e:
            return dict(mut, status="APPLY-FAILED", detail=str(e))
        env = dict(os.environ, PYTHONDONTWRITEBYTECODE="1", PYTHONPATH=d)
        t = subprocess.run(["/venv/bin/python", "-m", "pytest", "-q", "-p", "no:cacheprovider", "-x", "websocket/tests"],
                           cwd=d, env=env, capture_output=True, text=True, timeout=600)
        tests_pass = t.returncode == 0
        env = dict(os.environ, VERIF_REPO=d, VERIF_WORKERS=os.environ.get("MUT_WORKERS", "4"))
        cmd = [os.path.join(HERE, ".venv/bin/python"), os.path.join(HERE, "run_check.py"), mut["prop"], "--tier", tier, "--no-evidence"]
        if mut.get("only"):
            cmd += ["--only", mut["only"]]
        c = subprocess.run(cmd, cwd=HERE, env=env, capture_output=True, text=True, timeout=3600)
        viol = [l for l in c.stdout.splitlines() if l.startswith("VIOLATION")]
        labels = [l.strip() for l in c.stdout.splitlines() if l.startswith("  obligation=")]
        status = "KILLED" if (c.returncode == 1 and viol) else ("INCONCLUSIVE" if c.returncode == 3 else "SURVIVED")
        return dict(id=mut["id"], prop=mut["prop"], tests_pass=tests_pass, status=status, rc=c.returncode,
                    wall=round(time.time() - t0, 1), labels=labels[:3],
                    tail=c.stdout.splitlines()[-6:] if status != "KILLED" else [])
    finally:
        shutil.rmtree(d, ignore_errors=True)


def main():
    ap = argparse.ArgumentParser()
    ap.add_argument("--only")
    ap.add_argument("--prop")
    ap.add_argument("--jobs", type=int, default=4)
    ap.add_argument("--tier", default="quick")
    a = ap.parse_args()
    muts = M
    if a.only:
        muts = [x for x in muts if x["id"] in a.only.split(",")]
    if a.prop:
        muts = [x for x in muts if x["prop"] in a.prop.split(",")]
    with ThreadPoolExecutor(a.jobs) as ex:
        res = list(ex.map(lambda x: run_one(x, a.tier), muts))
    ok = True
    for r in res:
        print("%-24s %-4s tests_pass=%-5s %-12s rc=%s wall=%ss %s" % (r["id"], r["prop"], r.get("tests_pass"), r["status"], r.get("rc"),
                                                                    r.get("wall"), (r.get("labels") or [""])[0][:110]))
        if r["status"] != "KILLED":
            ok = False
            for l in r.get("tail", []):
                print("      " + l)
            if r.get("detail"):
                print("      " + r["detail"])
    json.dump(res, open(os.path.join(HERE, "selftest", "last_mutants.json"), "w"), indent=1)
    sys.exit(0 if ok else 1)


if __name__ == "__main__":
    main()
