#!/usr/bin/env python3
"""Mutation self-test (not a registered check).  Applies small source mutants — one per mechanism named in the
properties' anchors — to a scratch copy of /repo/websocket under /tmp, verifies that the repository's own tests
still pass on the mutant, and that the corresponding check exits 1 with a replayed VIOLATION.

usage: selftest/mutants.py [--only ID,...] [--prop C01,...] [--jobs N] [--tier quick]
"""
import argparse
import json
import os
import shutil
import subprocess
import sys
import tempfile
import time
from concurrent.futures import ThreadPoolExecutor

HERE = os.path.dirname(os.path.dirname(os.path.abspath(__file__)))
REPO = "/repo"

# id, property, file, old, new, [obligations that should catch it]
M = []


def m(mid, prop, file, old, new, only=None):
    M.append(dict(id=mid, prop=prop, file=file, old=old, new=new, only=only))


# ---- C01
m("len7-le", "C01", "_abnf.py", "if length < ABNF.LENGTH_7:", "if length <= ABNF.LENGTH_7:")
m("len16-le", "C01", "_abnf.py", "elif length < ABNF.LENGTH_16:", "elif length <= ABNF.LENGTH_16:", "F-hdr,F-big")
m("len16-endian", "C01", "_abnf.py", 'frame_header += struct.pack("!H", length)', 'frame_header += struct.pack("<H", length)')
m("mask-bit", "C01", "_abnf.py", "frame_header += chr(self.mask_value << 7 | length)", "frame_header += chr(self.mask_value << 6 | length)")
m("mask-mod", "C01", "_abnf.py", "mask_value[: datalen % 4]", "mask_value[: datalen % 3]")
m("key-twice", "C01", "_abnf.py", "        mask_key = self.get_mask_key(4)\n", "        mask_key = self.get_mask_key(4)\n        mask_key = self.get_mask_key(4) if len(self.data) == 77 else mask_key\n")
m("ret-payload", "C01", "_core.py", "        data = frame.format()\n        length = len(data)", "        data = frame.format()\n        length = len(frame.data)")
m("rsv-leak", "C01", "_abnf.py", "            | self.rsv3 << 4\n", "            | (self.rsv3 | (len(self.data) == 100)) << 4\n")
m("close-status-swap", "C01", "_core.py", '            self.send(struct.pack("!H", status) + reason, ABNF.OPCODE_CLOSE)\n            sock_timeout', '            self.send(struct.pack("<H", status) + reason, ABNF.OPCODE_CLOSE)\n            sock_timeout')
# ---- C02
m("len64-short", "C02", "_abnf.py", 'self.length = struct.unpack("!Q", v)[0]', 'self.length = struct.unpack("!Q", v)[0] & 0xFFFFFFFF', "R-any")
m("len16-swap", "C02", "_abnf.py", 'self.length = struct.unpack("!H", v)[0]', 'self.length = struct.unpack("<H", v)[0]')
m("fin-bit", "C02", "_abnf.py", "fin = b1 >> 7 & 1", "fin = b1 >> 6 & 1")
m("unmask-skip", "C02", "_abnf.py", "            if has_mask:\n                payload = ABNF.mask(mask_value, payload)", "            if has_mask and length != 3:\n                payload = ABNF.mask(mask_value, payload)")
m("opcode-nib", "C02", "_abnf.py", "opcode = b1 & 0xF", "opcode = b1 & 0x7")
# ---- C03
m("strict-drop", "C03", "_abnf.py", "self.recv_buffer = [unified[bufsize:]]", "self.recv_buffer = [unified[bufsize + 1:]]")
m("stage-clear-early", "C03", "_abnf.py", "            # Payload\n            payload = self.recv_strict(length)", "            # Payload\n            self.clear()\n            payload = self.recv_strict(length)")
m("strict-overread", "C03", "_abnf.py", "bytes_ = self.recv(min(16384, shortage))", "bytes_ = self.recv(min(16384, shortage + 1))")
m("line-read2", "C03", "_socket.py", "        c = recv(sock, 1)\n", "        c = recv(sock, 2 if line and line[-1] == b'\\r' else 1)\n        c, rest = c[:1], c[1:]\n")
# ---- C04
m("cont-replace", "C04", "_abnf.py", "            self.cont_data[1] += frame.data", "            self.cont_data[1] = frame.data + self.cont_data[1]")
m("first-opcode", "C04", "_abnf.py", "            self.cont_data = [frame.opcode, frame.data]", "            self.cont_data = [ABNF.OPCODE_TEXT, frame.data]")
m("ctrl-resets", "C04", "_core.py", "            elif frame.opcode == ABNF.OPCODE_PONG:\n                if control_frame:", "            elif frame.opcode == ABNF.OPCODE_PONG:\n                self.cont_frame.cont_data = None\n                if control_frame:")
# ---- C05
m("rsv-ignore", "C05", "_abnf.py", "if self.rsv1 or self.rsv2 or self.rsv3:", "if self.rsv1 or self.rsv2:")
m("close-1005", "C05", "_abnf.py", "    STATUS_UNEXPECTED_CONDITION,\n    STATUS_SERVICE_RESTART,", "    STATUS_UNEXPECTED_CONDITION,\n    STATUS_STATUS_NOT_AVAILABLE,\n    STATUS_SERVICE_RESTART,")
m("close-range", "C05", "_abnf.py", "(3000 <= code < 5000)", "(3000 <= code <= 5000)")
m("cont-idle", "C05", "_abnf.py", "        if not self.recving_frames and frame.opcode == ABNF.OPCODE_CONT:\n            raise", "        if False and frame.opcode == ABNF.OPCODE_CONT:\n            raise")
m("newmsg-inside", "C05", "_abnf.py", "        if self.recving_frames and frame.opcode in (\n            ABNF.OPCODE_TEXT,\n            ABNF.OPCODE_BINARY,\n        ):", "        if self.recving_frames and frame.opcode in (\n            ABNF.OPCODE_TEXT,\n        ):")
m("close-len1", "C05", "_abnf.py", "if l == 1 or l >= 126:", "if l >= 126:")
m("pong-frag-ok", "C05", "_abnf.py", "if self.opcode in (ABNF.OPCODE_CLOSE, ABNF.OPCODE_PING, ABNF.OPCODE_PONG):", "if self.opcode in (ABNF.OPCODE_CLOSE, ABNF.OPCODE_PING):")
# ---- C06
m("utf8-surrogate", "C06", "_utils.py", None, None)  # filled below (table edit)
m("utf8-end", "C06", "_utils.py", "        return state == _UTF8_ACCEPT", "        return True")
m("extract-novalidate-bin", "C06", "_abnf.py", "            and data[0] == ABNF.OPCODE_TEXT\n", "            and data[0] == ABNF.OPCODE_TEXT\n            and len(frame.data) != 3\n")
m("close-reason-skip", "C06", "_abnf.py", "if l > 2 and not skip_utf8_validation and not validate_utf8(self.data[2:]):", "if l > 3 and not skip_utf8_validation and not validate_utf8(self.data[2:]):")
# ---- C07
m("pong-empty", "C07", "_core.py", "                    self.pong(frame.data)", "                    self.pong(frame.data if len(frame.data) != 2 else b'')")
m("pong-after-return", "C07", "_core.py", "                if len(frame.data) < 126:\n                    self.pong(frame.data)", "                if len(frame.data) < 126 and not control_frame:\n                    self.pong(frame.data)")
m("pong-for-pong", "C07", "_core.py", "            elif frame.opcode == ABNF.OPCODE_PONG:\n                if control_frame:", "            elif frame.opcode == ABNF.OPCODE_PONG:\n                if self.cont_frame.recving_frames:\n                    self.pong(frame.data)\n                if control_frame:")
# ---- C12
m("send-noloop", "C12", "_core.py", "            while data:\n                l = self._send(data)\n                data = data[l:]", "            l = self._send(data)\n            data = data[l:]\n            if data:\n                self._send(data)")
m("lock-per-write", "C12", "_core.py", "        with self.lock:\n            while data:\n                l = self._send(data)\n                data = data[l:]", "        while data:\n            with self.lock:\n                l = self._send(data)\n            data = data[l:]")
m("recv-nolock", "C12", "_core.py", "        with self.readlock:\n            opcode, data = self.recv_data()", "        if True:\n            opcode, data = self.recv_data()")



# ---- C08
m("close-reply-always", "C08", "_core.py", "                if self.connected:\n                    self.send_close()", "                if True:\n                    self.send_close()")
m("close-range", "C08", "_core.py", "        if status < 0 or status >= ABNF.LENGTH_16:\n            raise ValueError(\"code is invalid range\")\n\n        try:", "        if status < 0 or status > ABNF.LENGTH_16:\n            raise ValueError(\"code is invalid range\")\n\n        try:")
m("close-norelease", "C08", "_core.py", "        except:\n            pass\n\n        self.shutdown()", "        except:\n            pass\n\n        self.connected = False")
m("close-early-leak", "C08", "_core.py", "            self.shutdown()\n            return\n        if status < 0", "            return\n        if status < 0")
m("eof-keep-sock", "C08", "_core.py", "            if self.sock:\n                self.sock.close()\n            self.sock = None\n            self.connected = False\n            raise", "            self.connected = False\n            raise")
m("close-wait-3t", "C08", "_core.py", "while timeout is None or time.time() - start_time < timeout:", "while timeout is None or time.time() - start_time < timeout * 3:")
m("sendclose-norange", "C08", "_core.py", "        if status < 0 or status >= ABNF.LENGTH_16:\n            raise ValueError(\"code is invalid range\")\n        self.connected = False", "        if status < 0:\n            raise ValueError(\"code is invalid range\")\n        self.connected = False")
# ---- C09
m("upgrade-substring", "C09", "_handshake.py", "        if v not in r:\n            return False, None", "        if not any(v in x for x in r):\n            return False, None")
m("accept-prefix", "C09", "_handshake.py", "    if hmac.compare_digest(hashed, result):", "    if hmac.compare_digest(hashed[:20], result[:20]):")
m("subproto-any", "C09", "_handshake.py", "        if not subproto or subproto.lower() not in [s.lower() for s in subprotocols]:", "        if not subproto:")
m("redirect-plus1", "C09", "_core.py", "for _ in range(options.pop(\"redirect_limit\", 3)):", "for _ in range(options.pop(\"redirect_limit\", 3) + 1):")
m("redirect-success", "C09", "_core.py", "            if self.handshake_response.status in SUPPORTED_REDIRECT_STATUSES:\n                raise WebSocketException(\"Too many redirects\")\n", "")
m("fail-noclose", "C09", "_core.py", "        except:\n            if self.sock:\n                self.sock.close()\n                self.sock = None\n            raise\n\n    def send(", "        except:\n            if self.sock:\n                self.sock = None\n            raise\n\n    def send(")
m("status-200-ok", "C09", "_handshake.py", "SUCCESS_STATUSES = SUPPORTED_REDIRECT_STATUSES + (HTTPStatus.SWITCHING_PROTOCOLS,)", "SUCCESS_STATUSES = SUPPORTED_REDIRECT_STATUSES + (HTTPStatus.SWITCHING_PROTOCOLS, HTTPStatus.OK)")
m("conn-header-skip", "C09", "_handshake.py", "    \"connection\": \"upgrade\",\n}", "}")
# ---- C10
m("hostport-443", "C10", "_handshake.py", "    if port in [80, 443]:", "    if port == 80:")
m("ipv6-nobracket", "C10", "_handshake.py", "    if \":\" in hostname:", "    if hostname.count(\":\") > 1:")
m("origin-scheme", "C10", "_handshake.py", "        elif scheme == \"wss\":", "        elif scheme == \"ws\":")
m("cookie-order", "C10", "_handshake.py", "filter(None, [server_cookie, client_cookie])", "filter(None, [client_cookie, server_cookie])")
m("key-15", "C10", "_handshake.py", "randomness = os.urandom(16)", "randomness = os.urandom(15)")
m("dict-none", "C10", "_handshake.py", "for k, v in header.items() if v is not None]", "for k, v in header.items() if v]")
m("two-sends", "C10", "_handshake.py", "    send(sock, header_str)\n", "    send(sock, header_str[:10])\n    send(sock, header_str[10:])\n")
m("version-dup", "C10", "_handshake.py", "    if not options.get(\"connection\"):\n        headers.append(\"Connection: Upgrade\")", "    if not options.get(\"connection\") or options.get(\"cookie\") == \"x\":\n        headers.append(\"Connection: Upgrade\")")
# ---- C11
m("default-certnone", "C11", "_http.py", "sslopt: dict = {\"cert_reqs\": ssl.CERT_REQUIRED}", "sslopt: dict = {\"cert_reqs\": ssl.CERT_NONE}")
m("hostname-override-ignored", "C11", "_http.py", "    if sslopt.get(\"server_hostname\", None):\n        hostname = sslopt[\"server_hostname\"]", "    if False:\n        hostname = sslopt[\"server_hostname\"]")
m("checkhostname-default-off", "C11", "_http.py", "            context.check_hostname = sslopt.get(\"check_hostname\", True)", "            context.check_hostname = sslopt.get(\"check_hostname\", False)")
m("env-overrides-user", "C11", "_http.py", "        and os.path.isfile(cert_path)\n        and user_sslopt.get(\"ca_certs\", None) is None", "        and os.path.isfile(cert_path)")
m("optional-downgrade", "C11", "_http.py", "            context.verify_mode = sslopt.get(\"cert_reqs\", ssl.CERT_REQUIRED)", "            context.verify_mode = min(sslopt.get(\"cert_reqs\", ssl.CERT_REQUIRED), ssl.CERT_OPTIONAL)")
m("tunnel-then-plain", "C11", "_http.py", "            sock = _tunnel(sock, hostname, port_from_url, auth)\n\n        if is_secure:", "            sock = _tunnel(sock, hostname, port_from_url, auth)\n\n        if is_secure and not need_tunnel:")
# ---- C13
m("ssl-nopending", "C13", "_dispatcher.py", "        if sock.pending():", "        if False:")
m("cb-error-swallow", "C13", "_app.py", "                if self.on_error:\n                    self.on_error(self, e)", "                pass")
m("pong-as-ping", "C13", "_app.py", "                self._callback(self.on_pong, frame.data)", "                self._callback(self.on_ping, frame.data)")
m("message-before-data", "C13", "_app.py", "                self._callback(self.on_data, data, op_code, True)\n                self._callback(self.on_message, data)", "                self._callback(self.on_message, data)\n                self._callback(self.on_data, data, op_code, True)")
m("ondata-opcode", "C13", "_app.py", "self._callback(self.on_data, data, op_code, True)", "self._callback(self.on_data, data, frame.opcode, True)")
# (select-twice removed: equivalent in virtual time — a second select on ready data returns at once)
# ---- C14
m("teardown-noframe", "C14", "_app.py", "                return teardown(frame)", "                return closed(frame)")
m("haserr-noreset", "C14", "_app.py", "        self.has_errored = False\n        self.keep_running = True", "        self.keep_running = True")
m("onclose-twice", "C14", "_app.py", "                if self.has_done_teardown:\n                    return\n", "                if self.has_done_teardown and not self.has_errored:\n                    return\n")
m("pingthread-leak", "C14", "_app.py", "        if self.stop_ping:\n            self.stop_ping.set()", "        if self.stop_ping and not self.has_errored:\n            self.stop_ping.set()")
m("closeargs-len", "C14", "_app.py", "if close_frame.data and len(close_frame.data) >= 2:", "if close_frame.data and len(close_frame.data) > 2:")
m("close-in-open-crash", "C14", "_app.py", "                if not self.keep_running:\n                    # close() was called from on_open / on_reconnect\n                    teardown()\n                    return\n\n", "")
m("sock-not-closed", "C14", "_app.py", "            if self.sock:\n                self.sock.close()\n            close_status_code", "            close_status_code")
# ---- C15
m("reconnect-2x", "C15", "_dispatcher.py", "            time.sleep(seconds)\n            # close() may have", "            time.sleep(seconds * 2)\n            # close() may have")
m("no-on-reconnect", "C15", "_app.py", "                if reconnecting and self.on_reconnect:", "                if False and self.on_reconnect:")
m("old-sock-leak", "C15", "_app.py", "            if reconnecting and self.sock:\n                self.sock.shutdown()\n", "")
m("reconnect-after-close", "C15", "_app.py", "                return teardown(frame)", "                return closed(frame)")
m("close-between", "C15", "_app.py", "            if reconnect:\n                _logging.info(f\"{e} - reconnect\")", "            if reconnect:\n                self._callback(self.on_close, None, None)\n                _logging.info(f\"{e} - reconnect\")")
m("ping-not-stopped", "C15", "_app.py", "            self.has_errored = True\n            self._stop_ping_thread()", "            self.has_errored = True")
# ---- C16
m("ping-overwrite", "C16", "_app.py", "                if not self.last_ping_tm or self.last_pong_tm >= self.last_ping_tm:\n                    self.last_ping_tm = time.time()", "                self.last_ping_tm = time.time()")
m("args-lt", "C16", "_app.py", "if ping_timeout and ping_interval and ping_interval <= ping_timeout:", "if ping_timeout and ping_interval and ping_interval < ping_timeout:")
m("pong-time-lost", "C16", "_app.py", "                self.last_pong_tm = time.time()\n", "                self.last_pong_tm = time.time() if frame.data else self.last_pong_tm\n")
m("ping-payload-drop", "C16", "_app.py", "self.sock.ping(self.ping_payload)", "self.sock.ping()")
m("timeout-neg-ok", "C16", "_app.py", "if ping_timeout is not None and ping_timeout <= 0:", "if ping_timeout is not None and ping_timeout < 0:")
# ---- C17
m("cap-removed", "C17", "_abnf.py", "bytes_ = self.recv(min(16384, shortage))", "bytes_ = self.recv(shortage)")
m("status-unchecked", "C17", "_http.py", "            try:\n                status = int(status_info[1])\n            except (IndexError, ValueError):\n                raise WebSocketException(\"Invalid status line\")", "            status = int(status_info[1])")
m("clen-uncapped", "C17", "_handshake.py", "response_body = sock.recv(min(body_len, 16384))", "response_body = sock.recv(body_len)")
m("location-keyerror", "C17", "_core.py", "url = self.handshake_response.headers.get(\"location\")", "url = self.handshake_response.headers[\"location\"]")
m("header-nocolon-index", "C17", "_http.py", "            if len(kv) != 2:\n                raise WebSocketException(\"Invalid header\")\n", "")
m("close-body-struct", "C17", "_abnf.py", "            code = 256 * int(self.data[0]) + int(self.data[1])", "            code = struct.unpack(\"!H\", self.data[0:2] if l != 3 else self.data[0:1])[0]")
# ---- C18
m("wss-default-80", "C18", "_url.py", "        is_secure = True\n        if not port:\n            port = 443", "        is_secure = True\n        if not port:\n            port = 80")
m("query-dropped", "C18", "_url.py", "    if parsed.query:\n        resource += f\"?{parsed.query}\"", "    if parsed.query and parsed.path:\n        resource += f\"?{parsed.query}\"")
m("refused-aborts", "C18", "_http.py", "                if error.errno not in eConnRefused:\n                    raise error", "                if error.errno not in eConnRefused or error.errno == errno.ENETUNREACH:\n                    raise error")
m("opts-first-only", "C18", "_http.py", "        for opts in sockopt:\n            sock.setsockopt(*opts)", "        for opts in (sockopt if addrinfo is addrinfo_list[0] else []):\n            sock.setsockopt(*opts)")
m("failed-not-closed", "C18", "_http.py", "            except socket.error as error:\n                sock.close()\n", "            except socket.error as error:\n")
m("timeout-first-only", "C18", "_http.py", "        sock.settimeout(timeout)\n        for opts in DEFAULT_SOCKET_OPTION:", "        sock.settimeout(timeout if addrinfo is addrinfo_list[0] else None)\n        for opts in DEFAULT_SOCKET_OPTION:")
m("port-65535", "C18", "_url.py", "    if parsed.port:\n        port = parsed.port", "    if parsed.port and parsed.port != 65535:\n        port = parsed.port")
m("scheme-case", "C18", "_url.py", "    if scheme == \"ws\":", "    if scheme.lower() == \"ws\":")
# ---- C19
m("noproxy-suffix", "C19", "_url.py", "        if endDomain and (\n            hostname == endDomain or hostname.endswith(\".\" + endDomain)\n        ):", "        if endDomain and hostname.endswith(endDomain):")
m("cidr-31", "C19", "_url.py", "0 <= int(netmask) <= 32", "0 <= int(netmask) < 32")
m("cidr-mask-shift", "C19", "_url.py", "netmask = (0xFFFFFFFF << (32 - int(netmask))) & 0xFFFFFFFF", "netmask = (0xFFFFFFFF << (31 - int(netmask))) & 0xFFFFFFFF")
m("https-for-ws", "C19", "_url.py", "env_key = \"https_proxy\" if is_secure else \"http_proxy\"", "env_key = \"http_proxy\" if is_secure else \"https_proxy\"")
m("tunnel-2xx", "C19", "_http.py", "    if status != 200:\n        raise WebSocketProxyException", "    if status >= 300:\n        raise WebSocketProxyException")
m("auth-nopass", "C19", "_http.py", "        if auth[1]:\n            auth_str += f\":{auth[1]}\"", "        if auth[1] and \":\" not in auth[1]:\n            auth_str += f\":{auth[1]}\"")
m("noproxy-env-ignored-when-option", "C19", "_url.py", "    if not no_proxy:\n        if v := os.environ.get(\"no_proxy\"", "    if True:\n        if v := os.environ.get(\"no_proxy\"")
m("connect-target-proxy", "C19", "_http.py", "    connect_header = f\"CONNECT {host}:{port} HTTP/1.1\\r\\n\"", "    connect_header = f\"CONNECT {host} HTTP/1.1\\r\\n\"")
# ---- C20
m("jar-nolower", "C20", "_cookiejar.py", "                    # the jar is keyed by the lower-cased domain\n                    domain = domain.lower()\n", "")
m("jar-suffix-nolabel", "C20", "_cookiejar.py", "            if host.endswith(domain) or host == domain[1:]:", "            if host.endswith(domain[1:]):")
m("jar-nodomain-kept", "C20", "_cookiejar.py", "                if domain := v.get(\"domain\"):\n                    if not domain.startswith(\".\"):\n                        domain = f\".{domain}\"\n                    # the jar", "                if domain := (v.get(\"domain\") or \"setter.example\"):\n                    if not domain.startswith(\".\"):\n                        domain = f\".{domain}\"\n                    # the jar")
m("jar-host-case", "C20", "_cookiejar.py", "            host = host.lower()\n", "")
m("cookie-unsorted", "C20", "_cookiejar.py", "                sorted(\n                    [", "                list(\n                    [")


def _utf8_table_mutant(src):
    # allow ED A0..BF (surrogates): change the class of byte 0xED from 4 to 3 in the table's first part
    lines = src.split("\n")
    start = [i for i, l in enumerate(lines) if "_UTF8D = [" in l][0]
    # the table lists one number per line after the opening; entry for byte 0xED is at index 0xED
    idx, k = 0, start + 1
    while k < len(lines):
        tok = lines[k].strip().rstrip(",")
        if tok.isdigit():
            if idx == 0xED:
                assert tok == "4", tok
                lines[k] = lines[k].replace("4", "3")
                return "\n".join(lines)
            idx += 1
        k += 1
    raise AssertionError("table entry not found")


def apply(mut, dst):
    p = os.path.join(dst, "websocket", mut["file"])
    s = open(p).read()
    if mut["id"] == "utf8-surrogate":
        s2 = _utf8_table_mutant(s)
    else:
        if s.count(mut["old"]) != 1:
            raise RuntimeError("mutant %s: pattern occurs %d times" % (mut["id"], s.count(mut["old"])))
        s2 = s.replace(mut["old"], mut["new"])
    open(p, "w").write(s2)


def run_one(mut, tier):
    d = tempfile.mkdtemp(prefix="vmut_%s_" % mut["id"], dir="/tmp")
    t0 = time.time()
    try:
        shutil.copytree(os.path.join(REPO, "websocket"), os.path.join(d, "websocket"))
        for f in ("setup.py", "setup.cfg", "README.md"):
            if os.path.exists(os.path.join(REPO, f)):
                shutil.copy(os.path.join(REPO, f), d)
        try:
            apply(mut, d)
        except Exception as e:
            return dict(mut, status="APPLY-FAILED", detail=str(e))
        env = dict(os.environ, PYTHONDONTWRITEBYTECODE="1", PYTHONPATH=d)
        t = subprocess.run(["/venv/bin/python", "-m", "pytest", "-q", "-p", "no:cacheprovider", "-x", "websocket/tests"],
                           cwd=d, env=env, capture_output=True, text=True, timeout=600)
        tests_pass = t.returncode == 0
        env = dict(os.environ, VERIF_REPO=d, VERIF_WORKERS=os.environ.get("MUT_WORKERS", "4"))
        cmd = [os.path.join(HERE, ".venv/bin/python"), os.path.join(HERE, "run_check.py"), mut["prop"], "--tier", tier, "--no-evidence"]
        if mut.get("only"):
            cmd += ["--only", mut["only"]]
        c = subprocess.run(cmd, cwd=HERE, env=env, capture_output=True, text=True, timeout=3600)
        viol = [l for l in c.stdout.splitlines() if l.startswith("VIOLATION")]
        labels = [l.strip() for l in c.stdout.splitlines() if l.startswith("  obligation=")]
        status = "KILLED" if (c.returncode == 1 and viol) else ("INCONCLUSIVE" if c.returncode == 3 else "SURVIVED")
        return dict(id=mut["id"], prop=mut["prop"], tests_pass=tests_pass, status=status, rc=c.returncode,
                    wall=round(time.time() - t0, 1), labels=labels[:3],
                    tail=c.stdout.splitlines()[-6:] if status != "KILLED" else [])
    finally:
        shutil.rmtree(d, ignore_errors=True)


def main():
    ap = argparse.ArgumentParser()
    ap.add_argument("--only")
    ap.add_argument("--prop")
    ap.add_argument("--jobs", type=int, default=4)
    ap.add_argument("--tier", default="quick")
    a = ap.parse_args()
    muts = M
    if a.only:
        muts = [x for x in muts if x["id"] in a.only.split(",")]
    if a.prop:
        muts = [x for x in muts if x["prop"] in a.prop.split(",")]
    with ThreadPoolExecutor(a.jobs) as ex:
        res = list(ex.map(lambda x: run_one(x, a.tier), muts))
    ok = True
    for r in res:
        print("%-24s %-4s tests_pass=%-5s %-12s rc=%s wall=%ss %s" % (r["id"], r["prop"], r.get("tests_pass"), r["status"], r.get("rc"),
                                                                    r.get("wall"), (r.get("labels") or [""])[0][:110]))
        if r["status"] != "KILLED":
            ok = False
            for l in r.get("tail", []):
                print("      " + l)
            if r.get("detail"):
                print("      " + r["detail"])
    json.dump(res, open(os.path.join(HERE, "selftest", "last_mutants.json"), "w"), indent=1)
    sys.exit(0 if ok else 1)


if __name__ == "__main__":
    main()
