#!/usr/bin/env python3
"""Cross-check of the deciding solver: every query that z3 decided during a check is put to cvc5 as well.

usage: selftest/crosssolver.py [C01 C02 ...] [--tier quick] [--max-per-prop 400] [--tlimit-ms 20000] [--keep]

For each property the check is run once with VERIF_DUMP_SMT=<scratch dir>: the engine (bvsym/core.py, Ctx.check) then writes every
decided query — path condition plus the negated assertion (`require`) or the branch literal — as SMT-LIB2 with z3's verdict in the first
line.  Each file is given to the cvc5 binary (1.0.x on PATH; QF_BV / LRA / LIA, no logic set = ALL); the two verdicts must agree.
cvc5 answering `unknown` / running into the time limit is counted separately (neither agreement nor disagreement).

Exit 0: no disagreement.  Exit 1: some query on which z3 and cvc5 disagree (printed; the file is kept).  This is a self-test of the
machinery (a solver bug or an export bug would show here), not one of the registered checks; results are recorded in
selftest/crosssolver_results.md.
"""
import argparse
import concurrent.futures as cf
import glob
import os
import shutil
import subprocess
import sys
import tempfile
import time

HERE = os.path.dirname(os.path.dirname(os.path.abspath(__file__)))


def ask_cvc5(path, tlimit_ms):
    t0 = time.time()
    try:
        r = subprocess.run(["cvc5", "--tlimit=%d" % tlimit_ms, "-q", path], capture_output=True, text=True, timeout=tlimit_ms / 1000 + 20)
        out = (r.stdout.strip().splitlines() or [""])[-1].strip()
        if out not in ("sat", "unsat"):
            out = "unknown"
    except subprocess.TimeoutExpired:
        out = "unknown"
    return path, out, time.time() - t0


def main():
    ap = argparse.ArgumentParser()
    ap.add_argument("props", nargs="*")
    ap.add_argument("--tier", default="quick")
    ap.add_argument("--max-per-prop", type=int, default=400)
    ap.add_argument("--tlimit-ms", type=int, default=20000)
    ap.add_argument("--keep", action="store_true")
    a = ap.parse_args()
    props = a.props or ["C%02d" % i for i in range(1, 21)]
    bad = 0
    rows = []
    for pid in props:
        d = tempfile.mkdtemp(prefix="smt_%s_" % pid, dir="/tmp")
        try:
            # VERIF_DUMP_MAX is per worker process (16 of them): keep the total near --max-per-prop
            env = dict(os.environ, VERIF_DUMP_SMT=d, VERIF_DUMP_MAX=str(max(1, a.max_per_prop // 16)))
            t0 = time.time()
            c = subprocess.run([sys.executable, os.path.join(HERE, "run_check.py"), pid, "--tier", a.tier, "--no-evidence"], cwd=HERE, env=env,
                               capture_output=True, text=True)
            files = sorted(glob.glob(os.path.join(d, "*.smt2")))
            agree = {"sat": 0, "unsat": 0}
            unknown = 0
            tsum = 0.0
            with cf.ThreadPoolExecutor(max_workers=os.cpu_count() or 4) as ex:
                for path, out, dt in ex.map(lambda f: ask_cvc5(f, a.tlimit_ms), files):
                    z = os.path.basename(path).split("_")[0]
                    tsum += dt
                    if out == "unknown":
                        unknown += 1
                    elif out == z:
                        agree[z] += 1
                    else:
                        bad += 1
                        keep = os.path.join(HERE, "selftest", "disagree_" + os.path.basename(path))
                        shutil.copy(path, keep)
                        print("DISAGREEMENT %s: z3=%s cvc5=%s (%s)" % (pid, z, out, keep))
            row = "| %s | %d | %d | %d | %d | %d | %.0f | %.0f |" % (pid, c.returncode, len(files), agree["unsat"], agree["sat"], unknown, time.time() - t0, tsum)
            rows.append(row)
            print(row, flush=True)
        finally:
            if not a.keep:
                shutil.rmtree(d, ignore_errors=True)
    print("\n| property | check exit | queries exported | unsat agreed | sat agreed | cvc5 unknown/timeout | wall s | cvc5 cpu s |\n|---|---|---|---|---|---|---|---|")
    print("\n".join(rows))
    return 1 if bad else 0


if __name__ == "__main__":
    sys.exit(main())
