#!/usr/bin/env python3
"""Translator validation (self-test of the encoding, not part of any property's verdict).

Pushes concrete inputs — the repository's own test vectors and a few hundred pseudo-random ones — through the
symbolic proxies with every input *pinned* by an assumption (so the solver decides every branch), and asks the solver
to confirm that the symbolic result equals what the native code/CPython returns for the same input.  Covers: struct /
int.from_bytes / to_bytes / array / chr shims via ABNF.format, _mask, recv_frame; SymStr methods vs str; the UTF-8
reference DFA vs bytes.decode; the base64 model vs base64; SymTable vs list.

usage: .venv/bin/python selftest/translator_validation.py
"""
import base64
import os
import random
import sys

HERE = os.path.dirname(os.path.dirname(os.path.abspath(__file__)))
sys.path.insert(0, HERE)

import bvsym as sx  # noqa: E402
from bvsym import core, explore, loader, strs, utf8ref  # noqa: E402

loader.activate()
FAIL = []
N = [0]


def run(fn, label):
    work, n = [[]], 0
    while work:
        p = work.pop()
        st, ctx, cov, msg = explore.run_path(fn, {}, p, 100000, 30000)
        n += 1
        if st != "ok" or ctx.violations:
            FAIL.append((label, st, msg[-300:], ctx.violations[:1]))
        work.extend(ctx.pending)
    N[0] += 1
    return n


def pin_bytes(name, value):
    b = sx.sym_bytes(name, len(value))
    if len(value):
        sx.assume(b == value)
    return b


def pin_str(name, value):
    s = sx.sym_str(name, len(value))
    if len(value):
        sx.assume(s == value)
    return s


def main():
    rnd = random.Random(20260929)
    from websocket._abnf import ABNF, frame_buffer
    import websocket._abnf as A

    # ---- (a) the repository's own vectors: test_send frames / test_recv frames
    vectors = [(b"Hello", 1, b"abcd"), ("こんにちは".encode(), 1, b"abcd"), (b"\x00" * 200, 2, b"\x01\x02\x03\x04"), (b"", 9, b"zzzz"),
               (bytes(range(256)) * 300, 2, b"\xff\x00\xaa\x55")]
    for payload, op, key in vectors:
        def h(payload=payload, op=op, key=key):
            p = pin_bytes("p", payload)
            k = pin_bytes("k", key)
            fr = ABNF.create_frame(p, op)
            fr.get_mask_key = lambda n: k
            out = fr.format()
            nat = ABNF.create_frame(payload, op)
            nat.get_mask_key = lambda n: key
            sx.require(out == nat.format(), "format() through proxies equals native format()")
        run(h, "format %d bytes" % len(payload))
    recv_vectors = [b"\x81\x8fabcd\x82\xe3\xf0\x87\xe3\xf1\x80\xe5\xca\x81\xe2\xc5\x82\xe3\xcc", b"\x81\x85abcd)\x07\x0f\x08\x0e", b"\x88\x80\x17\x98p\x84",
                    b"\x01\x89abcd#\x10\x06\x05\x0bB\x16\x05\x02", b"\x82\x7e\x01\x00" + bytes(256), b"\x8a\x00"]
    for raw in recv_vectors:
        def h(raw=raw):
            s = pin_bytes("s", raw)
            pos = [0]

            def rv(n):
                n = n if isinstance(n, int) else n.__index__()
                out = s[pos[0]:pos[0] + n]
                pos[0] += n
                return out
            fr = frame_buffer(rv, True).recv_frame()
            pos2 = [0]

            def rv2(n):
                out = raw[pos2[0]:pos2[0] + n]
                pos2[0] += n
                return out
            nat = frame_buffer(rv2, True).recv_frame()
            sx.require(sx.And(fr.fin == nat.fin, fr.opcode == nat.opcode, fr.data == nat.data), "recv_frame through proxies equals native")
        run(h, "recv_frame %d bytes" % len(raw))

    # ---- (b) pseudo-random differential runs
    for i in range(60):
        n = rnd.choice([0, 1, 2, 3, 4, 5, 7, 8, 125, 126, 127, 300])
        data = bytes(rnd.randrange(256) for _ in range(n))
        key = bytes(rnd.randrange(256) for _ in range(4))

        def h(data=data, key=key):
            d = pin_bytes("d", data)
            k = pin_bytes("k", key)
            sx.require(ABNF.mask(k, d) == A.ABNF.mask(key, data), "mask through proxies equals native")
        run(h, "mask")
    alphabet = "abcXYZ .,:=-_/\t\r\n019%@"
    for i in range(150):
        s0 = "".join(rnd.choice(alphabet) for _ in range(rnd.randrange(0, 9)))
        t0 = "".join(rnd.choice(alphabet) for _ in range(rnd.randrange(0, 3)))

        def h(s0=s0, t0=t0):
            s = pin_str("s", s0)
            checks = [
                (s.lower(), s0.lower()), (s.upper(), s0.upper()), (s.strip(), s0.strip()), (s.lstrip("."), s0.lstrip(".")), (s.rstrip(), s0.rstrip()),
                (s.replace(" ", ""), s0.replace(" ", "")), (s.split(","), s0.split(",")), (s.split(" ", 2), s0.split(" ", 2)), (s.split(":", 1), s0.split(":", 1)),
                (s.split(), s0.split()), (s.startswith("a"), s0.startswith("a")), (s.endswith(t0), s0.endswith(t0)), (t0 in s, t0 in s0),
                (s.find(":"), s0.find(":")), (len(s), len(s0)), (s + "x", s0 + "x"), ("x" + s, "x" + s0), (s[1:], s0[1:]), (s.encode(), s0.encode()),
                (s == t0, s0 == t0), (strs.fmt_shim("a", (s, -1, ""), "b"), "a" + s0 + "b"),
                (strs.join_shim(", ", [s, "q"]), ", ".join([s0, "q"])),
            ]
            for got, exp in checks:
                if isinstance(got, list):
                    sx.require(len(got) == len(exp) and all(bool(g == e) for g, e in zip(got, exp)), "SymStr list result %r" % (exp,))
                else:
                    sx.require(got == exp, "SymStr result %r" % (exp,))
        run(h, "symstr %r" % s0)
    for lit in ["upgrade", "connection", "set-cookie", "location", "content-length", "sec-websocket-accept"]:
        def h(lit=lit):
            s = pin_str("s", lit)
            sx.require(hash(s) == hash(lit), "hash(SymStr) agrees with str for repository literals (dict lookups)")
            d = {s.lower(): 1}
            sx.require(d.get(lit) == 1, "dict keyed by a SymStr is found under the equal literal")
        run(h, "hash %r" % lit)
    for txt in ["0", "7", "42", " 101 ", "+5", "-3", "1_0", "_1", "1_", "", "  ", "0x1", "12a", "٣", "1__0", "00012", "+", "9" * 12]:
        if not txt.isascii():
            continue

        def h(txt=txt):
            s = pin_str("s", txt)
            try:
                exp = int(txt)
            except ValueError:
                exp = "ValueError"
            try:
                got = strs.parse_int(s) if not isinstance(s, str) else int(s)
            except ValueError:
                got = "ValueError"
            sx.require(got == exp if not isinstance(exp, str) else got == "ValueError", "int(%r)" % txt)
        run(h, "int %r" % txt)
    # ---- (c) reference UTF-8 DFA vs CPython for all strings of <= 2 bytes and 3000 random ones
    def cpy(b):
        try:
            b.decode("utf-8")
            return True
        except UnicodeDecodeError:
            return False
    bad = 0
    for a in range(256):
        if utf8ref.valid_concrete(bytes([a])) != cpy(bytes([a])):
            bad += 1
        for b in range(256):
            if utf8ref.valid_concrete(bytes([a, b])) != cpy(bytes([a, b])):
                bad += 1
    for i in range(20000):
        n = rnd.randrange(3, 7)
        bs = bytes(rnd.choice([rnd.randrange(256), rnd.randrange(0x80, 0xC0), rnd.choice([0xE0, 0xED, 0xF0, 0xF4, 0xC2, 0xEF])]) for _ in range(n))
        if utf8ref.valid_concrete(bs) != cpy(bs):
            bad += 1
    if bad:
        FAIL.append(("utf8ref vs CPython", bad))
    for bs in [b"\xc3\xa9", b"\xed\xa0\x80", b"\xf4\x90\x80\x80", b"\xe2\x82", b"abc", b"\xf0\x9f\x98\x80"]:
        def h(bs=bs):
            s = pin_bytes("u", bs)
            sx.require(sx.Iff(sx.utf8_valid(s), cpy(bs)), "symbolic UTF-8 reference equals CPython on %r" % bs)
        run(h, "utf8 term %r" % bs)
    # ---- (c2) the codecs stand-in: utf_8_decode(b, "strict", final) on pinned bytes equals the C function (consumed count; outcome)
    import codecs
    from bvsym import shims
    for bs in [b"abc", b"ab\xe2\x82", b"ab\xe2", b"\xf0\x9f\x98", b"\xc3\xa9", b"\xe2\x82\xac", b"a\xff", b"\xed\xa0", b"\xed\xa0\x80", b"\xf4\x90", b"", b"\x80", b"ab\xc3"]:
        for final in (False, True):
            def h(bs=bs, final=final):
                s = pin_bytes("u", bs) if bs else bs
                try:
                    nat = codecs.utf_8_decode(bs, "strict", final)
                except UnicodeDecodeError:
                    nat = "error"
                try:
                    got = shims.CodecsShim.utf_8_decode(s, "strict", final)
                except UnicodeDecodeError:
                    got = "error"
                if nat == "error" or got == "error":
                    sx.require(nat == got, "utf_8_decode(%r, final=%s): error exactly when the C function errors" % (bs, final))
                else:
                    sx.require(got[1] == nat[1], "utf_8_decode(%r, final=%s): consumed count" % (bs, final))
                    if all(c < 128 for c in bs[:nat[1]]):
                        sx.require(got[0] == nat[0], "utf_8_decode(%r): decoded ASCII text" % bs)
            run(h, "codecs.utf_8_decode %r final=%s" % (bs, final))
    # ---- (d) base64 model
    from harness.c10 import b64_model
    for i in range(20):
        raw = bytes(rnd.randrange(256) for _ in range(rnd.choice([1, 2, 3, 15, 16, 17])))

        def h(raw=raw):
            r = pin_bytes("r", raw)
            sx.require(b64_model(r) == base64.encodebytes(raw), "base64 model equals base64.encodebytes")
        run(h, "b64")
    print("translator validation: %d cases, %d failures" % (N[0], len(FAIL)))
    for f in FAIL[:10]:
        print("  FAIL", f)
    sys.exit(1 if FAIL else 0)


if __name__ == "__main__":
    main()
