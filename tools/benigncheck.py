#!/usr/bin/env python3
"""Run the quick checks against a behaviour-preserving patch: every check must exit 0.

usage: tools/benigncheck.py <patch.diff> [--props C01,C02,...] [--tier quick] [--jobs 4]

The patch is applied in a scratch worktree under /tmp (removed afterwards); the repository's 38 tests must pass on it;
each listed check (default: all 20) runs with VERIF_REPO=<worktree>.  Prints one line per check that did not exit 0
and a summary line; exit 0 iff every check exited 0.
"""
import argparse
import os
import shutil
import subprocess
import sys
import tempfile
import time
from concurrent.futures import ThreadPoolExecutor

HERE = os.path.dirname(os.path.dirname(os.path.abspath(__file__)))
ALL = ["C%02d" % i for i in range(1, 21)]


def sh(cmd, **kw):
    return subprocess.run(cmd, capture_output=True, text=True, **kw)


def main():
    ap = argparse.ArgumentParser()
    ap.add_argument("patch")
    ap.add_argument("--props", default=",".join(ALL))
    ap.add_argument("--tier", default="quick")
    ap.add_argument("--jobs", type=int, default=4)
    ap.add_argument("--only", default="", help="restrict to some obligations: 'C03=S-part;C05=P-resume,P-close' (other properties are not run)")
    a = ap.parse_args()
    patch = os.path.abspath(a.patch)
    wt = tempfile.mkdtemp(prefix="benign_", dir="/tmp")
    os.rmdir(wt)
    try:
        r = sh(["git", "-C", "/repo", "worktree", "add", "--detach", "-q", wt, "HEAD"])
        if r.returncode:
            print("worktree failed", r.stderr)
            return 2
        r = sh(["git", "-C", wt, "apply", patch])
        if r.returncode:
            print("PATCH DOES NOT APPLY:", r.stderr[:300])
            return 2
        env = dict(os.environ, PYTHONPATH=wt, PYTHONDONTWRITEBYTECODE="1")
        t = sh(["/venv/bin/python", "-m", "pytest", "-q", "-p", "no:cacheprovider", "websocket/tests"], cwd=wt, env=env)
        if not (t.returncode == 0 and "38 passed" in t.stdout):
            print("TESTS FAIL on patched tree:", t.stdout.strip().splitlines()[-1:])
            return 2

        only = dict(x.split("=", 1) for x in a.only.split(";") if x)
        if only:
            a.props = ",".join(only)

        def one(pid):
            t0 = time.time()
            extra = ["--only", only[pid]] if pid in only else []
            c = sh([sys.executable, os.path.join(HERE, "run_check.py"), pid, "--tier", a.tier, "--no-evidence"] + extra, cwd=HERE, timeout=7200,
                   env=dict(os.environ, VERIF_REPO=wt, VERIF_WORKERS=os.environ.get("BENIGN_WORKERS", "4")))
            return pid, c.returncode, round(time.time() - t0, 1), c.stdout.strip().splitlines()[-12:]

        bad = 0
        with ThreadPoolExecutor(a.jobs) as ex:
            for pid, rc, wall, tail in ex.map(one, [p for p in a.props.split(",") if p]):
                if rc != 0:
                    bad += 1
                    print("ALARM %s rc=%d wall=%ss" % (pid, rc, wall))
                    for l in tail:
                        print("     " + l[:300])
        print("benign %s: %d checks, %d alarms" % (os.path.basename(patch), len(a.props.split(",")), bad))
        return 1 if bad else 0
    finally:
        sh(["git", "-C", "/repo", "worktree", "remove", "--force", wt])
        shutil.rmtree(wt, ignore_errors=True)


if __name__ == "__main__":
    sys.exit(main())
