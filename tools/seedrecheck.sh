#!/bin/sh
# re-run the property's check against every stored seeded change (scratch worktree, VERIF_REPO) and refresh meta.json
cd /verif
for d in seeded/C*/; do
  n=$(basename $d); p=$(python3 -c "import json;print(json.load(open('$d/meta.json'))['property'])")
  keepnotes=$(mktemp -d); cp $d/patch.diff $d/demo.py $keepnotes/; python3 -c "
import json; m=json.load(open('$d/meta.json')); open('$keepnotes/notes.md','w').write(m.get('needs_to_manifest',''))"
  timeout 2400 python3 tools/seedcheck.py $p $keepnotes --name $n --keep $1 2>&1 | python3 -c "
import json,sys
try:
    d=json.load(sys.stdin); print(d['name'], 'confirmed', d['confirmed'], {k:(v['caught'], v['rc']) for k,v in d['checks'].items()})
except Exception as e: print('$n unparsable', e)"
  rm -rf $keepnotes
done
