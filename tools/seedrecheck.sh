#!/bin/sh
# re-run the property's check against every stored seeded change (scratch worktree, VERIF_REPO) and refresh meta.json
# usage: tools/seedrecheck.sh [-j N]   (N seeds at a time, default 4; each check then uses 16/N worker processes)
cd /verif
one() {
  d=$1; n=$(basename $d); p=$(python3 -c "import json;print(json.load(open('$d/meta.json'))['property'])")
  keepnotes=$(mktemp -d); cp $d/patch.diff $d/demo.py $keepnotes/; python3 -c "
import json; m=json.load(open('$d/meta.json')); open('$keepnotes/notes.md','w').write(m.get('needs_to_manifest',''))"
  timeout 3000 python3 tools/seedcheck.py $p $keepnotes --name $n --keep 2>&1 | python3 -c "
import json,sys
try:
    d=json.load(sys.stdin); print(d['name'], 'confirmed', d['confirmed'], {k:(v['caught'], v['rc']) for k,v in d['checks'].items()})
except Exception as e: print('$n unparsable', e)"
  rm -rf $keepnotes
}
if [ "$1" = "--one" ]; then one $2; exit 0; fi
J=4; [ "$1" = "-j" ] && J=$2
W=$((16 / J)); [ $W -lt 2 ] && W=2
ls -d seeded/C*/ | VERIF_WORKERS=$W xargs -P $J -n 1 sh tools/seedrecheck.sh --one
python3 tools/seedreadme.py
