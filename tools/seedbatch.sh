#!/bin/sh
# tools/seedbatch.sh <suffix> <ID>...   — confirm and check the seeds left by sub-agents under /tmp/seed/<ID>/_seed
suffix=$1; shift
cd /verif
for p in "$@"; do
  if [ -f /tmp/seed/$p/_seed/patch.diff ]; then
    timeout 2400 python3 tools/seedcheck.py $p /tmp/seed/$p/_seed --name $p-$suffix --keep 2>&1 | python3 -c "
import json,sys
try:
    d=json.load(sys.stdin)
    print(d['name'], 'confirmed', d['confirmed'], 'tests', d.get('tests_tail'), 'demo', d.get('demo_on_changed'), d.get('demo_on_unchanged'))
    print('   ', {k:(v['caught'], v['rc'], v['labels'][:1], v['tail'][-2:]) for k,v in d['checks'].items()})
except Exception as e:
    print('$p: seedcheck output unparsable', e)
" | cut -c1-700
  else
    echo "$p: no seed yet"
  fi
done
