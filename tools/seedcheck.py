#!/usr/bin/env python3
"""Confirm a seeded change and run the property's check against it.

usage: tools/seedcheck.py <PROPERTY> <dir-with-patch.diff-and-demo.py> [--name NAME] [--keep] [--tier quick] [--in-repo]

Steps (all in a scratch worktree under /tmp, removed afterwards):
  1. patch applies to /repo HEAD;  2. the repository's 38 tests still pass on the patched tree;
  3. demo.py exits 1 on the patched tree and 0 on the unchanged tree;
  4. run_check.py <PROPERTY> against the patched tree (VERIF_REPO=<worktree>; with --in-repo: git -C /repo apply, run, git checkout -- .)
With --keep and all of 1-3 confirmed, the change is stored as /verif/seeded/<NAME>/ {patch.diff, demo.py, meta.json}.
"""
import argparse
import json
import os
import shutil
import subprocess
import sys
import tempfile
import time

HERE = os.path.dirname(os.path.dirname(os.path.abspath(__file__)))


def sh(cmd, **kw):
    return subprocess.run(cmd, capture_output=True, text=True, **kw)


def main():
    ap = argparse.ArgumentParser()
    ap.add_argument("prop")
    ap.add_argument("dir")
    ap.add_argument("--name")
    ap.add_argument("--keep", action="store_true")
    ap.add_argument("--tier", default="quick")
    ap.add_argument("--in-repo", action="store_true")
    ap.add_argument("--also", default="", help="comma list of further properties whose checks to run as well")
    a = ap.parse_args()
    patch = os.path.abspath(os.path.join(a.dir, "patch.diff"))
    demo = os.path.abspath(os.path.join(a.dir, "demo.py"))
    name = a.name or (a.prop + "-" + os.path.basename(os.path.abspath(a.dir)))
    wt = tempfile.mkdtemp(prefix="seedchk_", dir="/tmp")
    os.rmdir(wt)
    res = {"property": a.prop, "name": name}
    try:
        r = sh(["git", "-C", "/repo", "worktree", "add", "--detach", "-q", wt, "HEAD"])
        if r.returncode:
            print("worktree failed", r.stderr)
            return 2
        r = sh(["git", "-C", wt, "apply", patch])
        res["applies"] = r.returncode == 0
        if r.returncode:
            print("PATCH DOES NOT APPLY:", r.stderr[:500])
            return 2
        env = dict(os.environ, PYTHONPATH=wt, PYTHONDONTWRITEBYTECODE="1")
        t = sh(["/venv/bin/python", "-m", "pytest", "-q", "-p", "no:cacheprovider", "websocket/tests"], cwd=wt, env=env)
        res["tests_pass"] = t.returncode == 0 and "38 passed" in t.stdout
        res["tests_tail"] = t.stdout.strip().splitlines()[-1] if t.stdout.strip() else ""
        d1 = sh(["/venv/bin/python", demo, wt], env=dict(os.environ, PYTHONDONTWRITEBYTECODE="1"), timeout=300)
        d0 = sh(["/venv/bin/python", demo, "/repo"], env=dict(os.environ, PYTHONDONTWRITEBYTECODE="1"), timeout=300)
        res["demo_on_changed"] = d1.returncode
        res["demo_on_unchanged"] = d0.returncode
        res["demo_out_changed"] = (d1.stdout + d1.stderr).strip()[-300:]
        confirmed = res["tests_pass"] and d1.returncode == 1 and d0.returncode == 0
        res["confirmed"] = confirmed
        checks = {}
        for pid in [a.prop] + [x for x in a.also.split(",") if x]:
            t0 = time.time()
            if a.in_repo:
                sh(["git", "-C", "/repo", "apply", patch])
                try:
                    c = sh([sys.executable, os.path.join(HERE, "run_check.py"), pid, "--tier", a.tier, "--no-evidence"], cwd=HERE, timeout=7200)
                finally:
                    sh(["git", "-C", "/repo", "checkout", "--", "."])
            else:
                c = sh([sys.executable, os.path.join(HERE, "run_check.py"), pid, "--tier", a.tier, "--no-evidence"], cwd=HERE, timeout=7200,
                       env=dict(os.environ, VERIF_REPO=wt))
            viol = [l for l in c.stdout.splitlines() if l.startswith("VIOLATION")]
            labels = [l.strip() for l in c.stdout.splitlines() if l.startswith("  obligation=")]
            checks[pid] = dict(rc=c.returncode, caught=(c.returncode == 1 and bool(viol)), labels=labels[:4], wall=round(time.time() - t0, 1),
                               tail=c.stdout.strip().splitlines()[-8:] if c.returncode != 1 else [])
        res["checks"] = checks
        print(json.dumps(res, indent=1))
        if a.keep and confirmed:
            dst = os.path.join(HERE, "seeded", name)
            os.makedirs(dst, exist_ok=True)
            shutil.copy(patch, os.path.join(dst, "patch.diff"))
            shutil.copy(demo, os.path.join(dst, "demo.py"))
            notes = os.path.join(a.dir, "notes.md")
            meta = {"property": a.prop, "name": name,
                    "needs_to_manifest": open(notes).read()[:3000] if os.path.exists(notes) else "",
                    "confirmed": {"tests_on_changed_tree": res["tests_tail"], "demo_exit_on_changed_tree": d1.returncode,
                                  "demo_exit_on_unchanged_tree": d0.returncode,
                                  "commands": ["git worktree add <tmp> HEAD && git apply patch.diff",
                                               "PYTHONPATH=<tmp> /venv/bin/python -m pytest -q -p no:cacheprovider websocket/tests",
                                               "/venv/bin/python demo.py <tmp>  (exit 1)", "/venv/bin/python demo.py /repo  (exit 0)"]},
                    "checks": {k: {"caught": v["caught"], "rc": v["rc"], "labels": v["labels"], "tier": a.tier} for k, v in checks.items()},
                    "repo_head": sh(["git", "-C", "/repo", "rev-parse", "--short", "HEAD"]).stdout.strip()}
            json.dump(meta, open(os.path.join(dst, "meta.json"), "w"), indent=1)
        return 0 if confirmed else 3
    finally:
        sh(["git", "-C", "/repo", "worktree", "remove", "--force", wt])
        shutil.rmtree(wt, ignore_errors=True)


if __name__ == "__main__":
    sys.exit(main())
