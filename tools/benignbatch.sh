#!/bin/sh
# tools/benignbatch.sh [patch...]  — run every quick check against each behaviour-preserving patch in /verif/benign
# BENIGN_ONLY='C03=S-part;C05=P-resume' restricts the run to some obligations (re-verification after adding obligations)
cd /verif
[ $# -eq 0 ] && set -- benign/*.diff
for f in "$@"; do
  echo "== $f"
  if [ -n "$BENIGN_ONLY" ]; then
    timeout 7200 python3 tools/benigncheck.py "$f" --jobs ${BENIGN_JOBS:-3} --only "$BENIGN_ONLY" 2>&1 | cut -c1-400
  else
    timeout 7200 python3 tools/benigncheck.py "$f" --jobs ${BENIGN_JOBS:-3} 2>&1 | cut -c1-400
  fi
done
