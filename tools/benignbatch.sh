#!/bin/sh
# tools/benignbatch.sh [patch...]  — run every quick check against each behaviour-preserving patch in /verif/benign
cd /verif
[ $# -eq 0 ] && set -- benign/*.diff
for f in "$@"; do
  echo "== $f"
  timeout 7200 python3 tools/benigncheck.py "$f" --jobs ${BENIGN_JOBS:-3} 2>&1 | cut -c1-400
done
