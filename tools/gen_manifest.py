#!/usr/bin/env python3
"""Regenerates MANIFEST.json from the table below (kept as code so that it always validates)."""
import json
import os

HERE = os.path.dirname(os.path.dirname(os.path.abspath(__file__)))

LEVEL_TEXT = ("Bounded symbolic execution of the real implementation: the repo's functions run on solver variables "
              "(z3 bit-vectors/reals), every feasible path within the stated bound is enumerated and each oracle "
              "assertion is discharged by an unsat answer, or refuted by a model that is replayed natively before it "
              "is reported. Not a proof: nothing is claimed outside the bounds listed in the evidence file.")
LEVEL_NOTE = ("Trusted: z3, the bvsym proxies/shims (struct/array/int/chr/len, ASCII SymStr), the fake transport and "
              "virtual-time kernel, CPython for natively executed constructs. Bounds, stubs and everything outside the "
              "claim are listed per obligation in the evidence file.")

CLAIMED = {
    # id: (technique, design_ref, extra level text)
}

NOT_APPLICABLE = {
}


def load_claims():
    import importlib.util
    p = os.path.join(HERE, "tools", "claims.py")
    spec = importlib.util.spec_from_file_location("claims", p)
    m = importlib.util.module_from_spec(spec)
    spec.loader.exec_module(m)
    return m.CLAIMED, m.NOT_APPLICABLE


def main():
    claimed, na = load_claims()
    props = [json.loads(l)["id"] for l in open(os.path.join(HERE, "properties.jsonl"))]
    checks = []
    for pid in props:
        if pid not in claimed:
            continue
        c = claimed[pid]
        checks.append({
            "property_id": pid,
            "quick_cmd": "python3 run_check.py %s --tier quick" % pid,
            "thorough_cmd": "python3 run_check.py %s --tier thorough" % pid,
            "evidence_file": "/verif/evidence/%s.json" % pid,
            "replay_cmd_template": "/venv/bin/python /verif/replay.py {path}",
            "engine": c.get("engine", "bvsym"),
            "level_claimed": {"category": "model_checking", "text": LEVEL_TEXT + " " + c.get("text", ""),
                              "design_ref": c["design_ref"]},
            "level_note": LEVEL_NOTE + " " + c.get("note", ""),
            "technique": c["technique"],
        })
    manifest = {
        "version": 1,
        "setup_cmd": "sh ./setup.sh",
        "hooks": {
            "guard": "WEBSOCKET_CLIENT_VERIF",
            "enable": "none needed: all instrumentation is injected from outside (import hook + module-namespace "
                      "shims); the guard variable is unused and /repo carries no hook commits",
            "baseline_off_cmd": "cd /repo && /venv/bin/python -m pytest -ra -q -p no:cacheprovider --timeout=900 "
                                "--continue-on-collection-errors",
            "source_commits": [],
            "add_only": True,
        },
        "engines": [
            {"name": "bvsym", "path": "/verif/bvsym",
             "serves_properties": [p for p in props if p in claimed],
             "kind_free_text": "own bounded symbolic executor for the repo's Python code: proxy objects over z3 "
                               "exact-width bit-vectors / reals / ASCII strings, DFS over path conditions by "
                               "re-execution, 16 worker processes, native replay of every counterexample"},
            {"name": "crosshair", "path": "/verif/bvsym/chrun.py",
             "serves_properties": [p for p in props if p in claimed and "crosshair" in claimed[p].get("engine", "")],
             "kind_free_text": "CrossHair 0.0.110 (z3) on PEP-316 contract functions over the repo's string code; "
                               "decides only where 'Confirmed over all paths' is reachable, otherwise bug-hunting only"},
        ],
        "checks": checks,
        "not_applicable": [{"property_id": p, "reason": na[p]} for p in props if p not in claimed],
        "notes": "All checks: ./run_check.py <ID> --tier quick|thorough; exit 0 held / 1 VIOLATION after native replay / "
                 "3 inconclusive (treated as a broken check). Known findings: /verif/known_findings.json.",
    }
    for p in props:
        if p not in claimed and p not in na:
            raise SystemExit("property %s neither claimed nor in NOT_APPLICABLE" % p)
    with open(os.path.join(HERE, "MANIFEST.json"), "w") as f:
        json.dump(manifest, f, indent=1)
    try:
        import jsonschema
        jsonschema.validate(manifest, json.load(open("/root/.vp/MANIFEST.schema.json")))
        print("MANIFEST.json valid; claimed:", [c["property_id"] for c in checks])
    except ImportError:
        print("MANIFEST.json written (jsonschema not available for validation)")


if __name__ == "__main__":
    main()
