#!/usr/bin/env python3
"""regenerate the table of seeded/README.md from the meta.json files (tools/seedrecheck.sh refreshes those)"""
import glob
import json
import os

HERE = os.path.dirname(os.path.dirname(os.path.abspath(__file__)))
p = os.path.join(HERE, "seeded", "README.md")
head = open(p).read().split("| change | property |")[0]
rows = ["| change | property | check result (quick tier, current checks) | first violated assertion | other checks run |", "|---|---|---|---|---|"]
n = caught = 0
for d in sorted(glob.glob(os.path.join(HERE, "seeded", "C*"))):
    m = json.load(open(os.path.join(d, "meta.json")))
    prop = m["property"]
    c = m["checks"].get(prop, {})
    others = ", ".join("%s: %s" % (k, "caught" if v.get("caught") else "rc=%s" % v.get("rc")) for k, v in m["checks"].items() if k != prop)
    lab = (c.get("labels") or [""])[0].replace("|", "/")[:170]
    rows.append("| %s | %s | %s | %s | %s |" % (os.path.basename(d), prop, "caught" if c.get("caught") else "NOT caught (rc=%s)" % c.get("rc"), lab, others))
    n += 1
    caught += bool(c.get("caught"))
open(p, "w").write(head + "\n".join(rows) + "\n\n%d live changes, %d caught by their property's check.\n" % (n, caught))
print(n, caught)
