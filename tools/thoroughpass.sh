#!/bin/sh
# run every thorough check once, one after the other (each uses all cores), and record exit code and wall time
cd /verif
out=${1:-/tmp/thorough_pass.log}
: > $out
for p in C01 C02 C03 C04 C05 C06 C07 C08 C09 C10 C11 C12 C13 C14 C15 C16 C17 C18 C19 C20; do
  t0=$(date +%s)
  python3 run_check.py $p --tier thorough --no-evidence > /tmp/thorough_$p.log 2>&1
  rc=$?
  t1=$(date +%s)
  echo "$p exit=$rc wall=$((t1 - t0))s $(grep -c 'discharged' /tmp/thorough_$p.log) obligations discharged" >> $out
done
