"""Which properties are claimed (with the deciding technique) and which are not (with the reason)."""
T_E2 = "bounded symbolic execution of the real code (bvsym proxies on z3 bit-vectors), solver verdict per path, native replay"
CLAIMED = {
    "C01": dict(technique=T_E2 + "; payload length itself a solver variable for the header", design_ref="DESIGN.md 5/C01"),
    "C02": dict(technique=T_E2 + "; arbitrary symbolic byte stream vs reference decoder over the same terms", design_ref="DESIGN.md 5/C02"),
    "C06": dict(technique=T_E2 + "; solver-checked simulation relation between the validator's DFA step and a reference DFA (all 256 bytes per state pair), plus bounded all-strings check", design_ref="DESIGN.md 5/C06"),
}
_PENDING = "check not built yet in this revision (planned: see DESIGN.md section 5)"
NOT_APPLICABLE = {("C%02d" % i): _PENDING for i in range(1, 21) if ("C%02d" % i) not in CLAIMED}
