"""Which properties are claimed (with the deciding technique) and which are not (with the reason)."""
T_E2 = "bounded symbolic execution of the real code (bvsym proxies on z3 bit-vectors), solver verdict per path, native replay"
CLAIMED = {
    "C01": dict(technique=T_E2 + "; payload length itself a solver variable for the header", design_ref="DESIGN.md 5/C01"),
    "C02": dict(technique=T_E2 + "; arbitrary symbolic byte stream vs reference decoder over the same terms", design_ref="DESIGN.md 5/C02"),
    "C03": dict(technique=T_E2 + "; inductive recv_strict step from an arbitrary buffer state; every partition/timeout placement as solver choices", design_ref="DESIGN.md 5/C03"),
    "C04": dict(technique=T_E2 + "; inductive reassembler step from an arbitrary valid state", design_ref="DESIGN.md 5/C04"),
    "C05": dict(technique=T_E2 + "; first header byte and 16-bit close code as solver variables vs an independent RFC predicate", design_ref="DESIGN.md 5/C05"),
    "C06": dict(technique=T_E2 + "; solver-checked simulation relation between the validator's DFA step and a reference DFA (all 256 bytes per state pair), plus bounded all-strings check", design_ref="DESIGN.md 5/C06"),
    "C07": dict(technique=T_E2 + "; reference decoding of the bytes written, transport event-log order", design_ref="DESIGN.md 5/C07"),
    "C08": dict(technique=T_E2 + "; call/event histories as solver choices, close status a solver integer, virtual time as solver reals", design_ref="DESIGN.md 5/C08"),
    "C13": dict(technique=T_E2 + "; real run_forever on a virtual-time kernel, arrival times as solver reals, callback trace vs reference", design_ref="DESIGN.md 5/C13"),
    "C14": dict(technique=T_E2 + "; every ending kind and a second thread released at a symbolic yield point on the virtual-time kernel; step budget as termination witness", design_ref="DESIGN.md 5/C14"),
    "C15": dict(technique=T_E2 + "; connection-outcome sequences on the virtual-time kernel, reconnect interval a solver real, attempt times compared as terms", design_ref="DESIGN.md 5/C15"),
    "C16": dict(technique=T_E2 + "; interval/timeout as unbounded solver reals for validation; ping thread + check() on the virtual-time kernel with latencies and arrival times as solver reals", design_ref="DESIGN.md 5/C16"),
    "C17": dict(technique=T_E2 + "; arbitrary symbolic response heads / frame streams, ASCII SymStr for decoded text; exception class, read-request cap and step budget as assertions", design_ref="DESIGN.md 5/C17"),
    "C09": dict(technique=T_E2 + "; symbolic ASCII header strings through _validate; symbolic 3-digit status, header variants, redirect chains and truncation points through the real connect() on the fake network", design_ref="DESIGN.md 5/C09"),
    "C10": dict(technique=T_E2 + "; symbolic ASCII host/resource/option strings and 128 symbolic key bits; produced request compared with an independently assembled one", design_ref="DESIGN.md 5/C10"),
    "C18": dict(technique="CrossHair (z3 Int/strings) deciding the port rule for every port 1..70000; " + T_E2 + " for the address-list fall-through (outcomes as solver choices, timeout a solver real); exhaustive catalogue enumeration for URL shapes", design_ref="DESIGN.md 5/C18", engine="bvsym+crosshair"),
    "C19": dict(technique="CrossHair deciding the no_proxy domain rule over all Unicode strings in the bound; " + T_E2 + " with ASCII SymStr for longer strings, 32-bit symbolic addresses for every CIDR prefix, symbolic proxy status through the real tunnel code", design_ref="DESIGN.md 5/C19", engine="bvsym+crosshair"),
    "C11": dict(technique=T_E2 + "; the documented sslopt / environment / scheme / proxy configuration space as solver choices, executed on a recording subclass of the real ssl.SSLContext; OpenSSL's own certificate decision is outside the technique", design_ref="DESIGN.md 5/C11", note="Certificate acceptance by OpenSSL (C code, FFI, live handshake) is not decided: the claim ends at the context and server_hostname handed to OpenSSL."),
    "C20": dict(technique=T_E2 + "; symbolic ASCII host/domain strings through SimpleCookieJar.get; Set-Cookie histories as solver choices through the real handshake on the fake network vs a reference jar", design_ref="DESIGN.md 5/C20"),
    "C12": dict(technique=T_E2 + " for short writes; z3 integer-order query over lock/write event traces extracted from the real code for ALL thread interleavings, replayed with real threads", design_ref="DESIGN.md 5/C12"),
}
NOT_APPLICABLE = {}
