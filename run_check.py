#!/usr/bin/env python3
"""Entry point of every registered check:  run_check.py <ID> [--tier quick|thorough] [--only OB,..]

Regenerates the encoding from /repo's current sources (import hook), runs the property's
obligations on all cores, replays every counterexample natively on the unmodified package,
consults known_findings.json, writes evidence/<ID>.json.
Exit: 0 held / 1 VIOLATION (replayed) / 3 inconclusive or harness error (a broken check, not a pass).
"""
import argparse
import hashlib
import json
import os
import subprocess
import sys
import time

HERE = os.path.dirname(os.path.abspath(__file__))
VENV_PY = os.path.join(HERE, ".venv", "bin", "python")
NATIVE_PY = os.environ.get("VERIF_NATIVE_PY", "/venv/bin/python")


def _ensure_interpreter():
    if os.path.abspath(sys.executable) == os.path.abspath(VENV_PY):
        return
    if not os.path.exists(VENV_PY):
        subprocess.check_call([os.path.join(HERE, "setup.sh")], stdout=sys.stderr)
    else:
        try:
            subprocess.check_call([VENV_PY, "-c", "import z3, crosshair"], stdout=subprocess.DEVNULL,
                                  stderr=subprocess.DEVNULL)
        except subprocess.CalledProcessError:
            subprocess.check_call([os.path.join(HERE, "setup.sh")], stdout=sys.stderr)
    os.execv(VENV_PY, [VENV_PY, "-u"] + sys.argv)


def load_known():
    p = os.path.join(HERE, "known_findings.json")
    if not os.path.exists(p):
        return {"findings": [], "fixed": []}
    return json.load(open(p))


def matches(entry, pid, v):
    if entry.get("property") != pid:
        return False
    if entry.get("obligation") not in (None, v["obligation"]):
        return False
    if entry.get("label") != v["label"]:
        return False
    ctx = dict(v.get("params") or {})
    ctx.update(v.get("info") or {})
    for k, want in (entry.get("match") or {}).items():
        if ctx.get(k) != want:
            return False
    return True


def replay(pid, harness_mod, ob_fn_name, v):
    d = os.path.join(HERE, "replays", pid)
    os.makedirs(d, exist_ok=True)
    body = {"property": pid, "obligation": v["obligation"], "harness": harness_mod, "fn": ob_fn_name,
            "params": v["params"], "model": v["model"], "label": v["label"], "info": v.get("info", {})}
    h = hashlib.sha256(json.dumps(body, sort_keys=True).encode()).hexdigest()[:16]
    path = os.path.join(d, h + ".json")
    with open(path, "w") as f:
        json.dump(body, f, indent=1, sort_keys=True)
    env = dict(os.environ)
    env["PYTHONDONTWRITEBYTECODE"] = "1"
    p = subprocess.run([NATIVE_PY, os.path.join(HERE, "replay.py"), path], capture_output=True, text=True,
                       env=env, timeout=600)
    return path, p.returncode, (p.stdout + p.stderr).strip()


def main():
    ap = argparse.ArgumentParser()
    ap.add_argument("pid")
    ap.add_argument("--tier", default=os.environ.get("VERIF_TIER", "quick"), choices=["quick", "thorough"])
    ap.add_argument("--only", default=None)
    ap.add_argument("--no-evidence", action="store_true")
    args = ap.parse_args()
    _ensure_interpreter()
    sys.path.insert(0, HERE)
    os.chdir(HERE)
    seed = int(os.environ.get("VERIF_SEED", "0") or 0)
    pid = args.pid.upper()
    t0 = time.time()

    from bvsym import explore
    import importlib
    modname = "harness." + pid.lower()
    mod = importlib.import_module(modname)
    only = set(args.only.split(",")) if args.only else None
    obs = {o.name: o for o in mod.obligations(args.tier)}

    sym_names = [n for n, o in obs.items() if o.kind != "crosshair" and (only is None or n in only)]
    ch_names = [n for n, o in obs.items() if o.kind == "crosshair" and (only is None or n in only)]
    results = []
    known = load_known()

    def is_known(v):
        return any(matches(e, pid, v) for e in known["findings"])

    if sym_names:
        results += explore.run_obligations(modname, args.tier, only=set(sym_names), is_known=is_known)
    if ch_names:
        from bvsym import chrun
        results += chrun.run(modname, args.tier, [obs[n] for n in ch_names])

    exit_code = 0
    viol_lines, known_lines, problems = [], [], []
    n_viol = 0
    seen = set()
    for r in results:
        ob = obs[r["name"]]
        per_label = {}
        for v in r["violations"]:
            key = (v["obligation"], v["label"], json.dumps(v.get("info", {}), sort_keys=True))
            per_label.setdefault(key, []).append(v)
        r["violation_labels"] = []
        replayed = 0
        # counterexamples that match no known finding are replayed first (the cap must never hide a new one)
        for key, vs in sorted(per_label.items(), key=lambda kv: is_known(kv[1][0])):
            v = vs[0]
            if replayed >= 8 and ob.kind != "crosshair":
                r["violation_labels"].append({"label": v["label"], "info": v.get("info", {}), "count_paths": len(vs),
                                              "status": "not-replayed (cap of 8 replays per obligation)"})
                continue
            replayed += 1
            if ob.kind == "crosshair":
                path, rc, out = v["replay_path"], v["replay_rc"], v.get("replay_out", "")
            else:
                path, rc, out = replay(pid, modname, ob.fn.__name__, v)
            rec = {"label": v["label"], "info": v.get("info", {}), "count_paths": len(vs), "replay": path,
                   "replay_rc": rc, "replay_out": out[-400:], "model": v["model"], "params": v["params"]}
            r["violation_labels"].append(rec)
            if rc != 1:
                problems.append("counterexample for %s/%s did not reproduce natively (rc=%s): %s — encoding or "
                                "harness error, not reported as a violation" % (r["name"], v["label"], rc, out[-300:]))
                rec["status"] = "not-reproduced"
                continue
            kf = [e for e in known["findings"] if matches(e, pid, v)]
            if kf:
                rec["status"] = "known-finding"
                line = "KNOWN-FINDING: property=%s %s [%s/%s] replay=%s" % (pid, kf[0].get("what", v["label"]),
                                                                             r["name"], v["label"], path)
                if line not in seen:
                    known_lines.append(line)
                    seen.add(line)
            else:
                rec["status"] = "violation"
                n_viol += 1
                viol_lines.append("VIOLATION property=%s replay=%s" % (pid, path))
                viol_lines.append("  obligation=%s label=%s info=%s" % (r["name"], v["label"], v.get("info", {})))
        del r["violations"]
        if r["verdict"] == "inconclusive" and r["required"]:
            problems.append("required obligation %s inconclusive: %s" % (r["name"], "; ".join(r["reasons"])))
        if r["verdict"] == "violated" and all(x["status"] in ("known-finding",) or x["status"].startswith("not-replayed") for x in r["violation_labels"]) \
                and any(x["status"] == "known-finding" for x in r["violation_labels"]):
            r["verdict"] = "known-finding" + (" (+inconclusive)" if r["reasons"] else "")
            if r["reasons"] and r["required"]:
                problems.append("required obligation %s inconclusive: %s" % (r["name"], "; ".join(r["reasons"])))

    na = [r["name"] for r in results if r["verdict"] == "not-applicable"]
    if na and not any(r["verdict"] == "discharged" and r["required"] for r in results):
        problems.append("no required obligation could be applied to this tree (private entry points not found: %s)" % ", ".join(na))
    if n_viol:
        exit_code = 1
    elif problems:
        exit_code = 3

    wall = time.time() - t0
    for r in results:
        print("[%s] %-12s %-14s paths=%d (ok %d, infeasible %d, unsup %d, unwound %d, err %d) queries=%d solver=%.1fs "
              "asserts=%d wall=%.1fs" % (pid, r["name"], r["verdict"], r["paths"], r["paths_ok"], r["paths_infeasible"],
                                         r["unsupported"], r["unwound"], r["errors"], r["solver_queries"], r["solver_s"],
                                         r["assertions_checked"] + r["assertions_trivially_true"], r["wall_s"]))
        for k, n in r["messages"].items():
            print("      %dx %s" % (n, k))
    for l in known_lines:
        print(l)
    for l in viol_lines:
        print(l)
    for p in problems:
        print("INCONCLUSIVE: " + p)

    if not args.no_evidence:
        write_evidence(pid, args.tier, seed, mod, results, wall, n_viol, known_lines, problems)
    print("[%s] tier=%s exit=%d wall=%.1fs" % (pid, args.tier, exit_code, wall))
    sys.exit(exit_code)


def write_evidence(pid, tier, seed, mod, results, wall, n_viol, known_lines, problems):
    from bvsym import loader
    paths = sum(r["paths"] for r in results)
    nontriv = sum(r["nontrivial_paths"] for r in results)
    samples = []
    for r in results:
        for s in r["samples"][:2]:
            samples.append(dict(obligation=r["name"], **s))
    funcs = sorted({f for r in results for f in r["functions"]})
    sources = {}
    for r in results:
        sources.update(r.get("sources", {}))
        r.pop("sources", None)
    decided = [r for r in results if r["kind"] != "hunt"]
    cov = {
        "evaluations": max(paths, 1),
        "distinct_nontrivial": nontriv,
        "rule": "one evaluation = one feasible execution path of the real code under symbolic inputs (a path "
                "condition over the solver variables); paths are distinct by construction (they differ in at least one "
                "branch decision) and non-trivial when at least one assertion of the oracle was evaluated on them with "
                "a satisfiable path condition. Each path stands for every input value satisfying its condition; an "
                "assertion is discharged either because z3's simplifier reduces it to true (both sides are the same term over the "
                "symbolic inputs) or by an unsat answer to (path condition AND NOT assertion).",
        "samples": samples or [{"note": "no completed path"}],
        "obligations": len(decided),
        "discharged": sum(1 for r in decided if r["verdict"] == "discharged"),
        "explanation": getattr(mod, "EXPLANATION", ""),
        "solver_queries": sum(r["solver_queries"] for r in results),
        "solver_s": round(sum(r["solver_s"] for r in results), 2),
        "assertions_checked": sum(r["assertions_checked"] + r["assertions_trivially_true"] for r in results),
        "assertions_discharged_unsat": sum(r["assertions_discharged"] for r in results),
        "assertions_discharged_by_term_identity": sum(r["assertions_trivially_true"] for r in results),
        "functions_encoded": funcs,
        "source_sha256": sources,
        "per_obligation": results,
        "known_findings_reported": known_lines,
        "inconclusive": problems,
        "exhaustive": False,
        "engine": "bvsym (z3 %s) + CrossHair where stated" % _z3v(),
        "trusted_base": ["z3", "bvsym proxies and shims (validated by selftest/translator_validation.py)",
                         "CPython semantics of the constructs executed natively"],
    }
    ev = {
        "property_id": pid, "tier": tier, "seed": seed, "level": "model_checking",
        "coverage": cov,
        "assumptions": sorted(set(list(getattr(mod, "ASSUMPTIONS", [])) + loader.SHIM_LIST +
                                  [a for r in results for a in r["assumptions"]])),
        "wall_s": round(wall, 2), "violations": n_viol,
    }
    os.makedirs(os.path.join(HERE, "evidence"), exist_ok=True)
    tmp = os.path.join(HERE, "evidence", pid + ".json.tmp")
    with open(tmp, "w") as f:
        json.dump(ev, f, indent=1, sort_keys=True, default=str)
    os.replace(tmp, os.path.join(HERE, "evidence", pid + ".json"))


def _z3v():
    try:
        import z3
        return z3.get_version_string()
    except Exception:
        return "?"


if __name__ == "__main__":
    main()
