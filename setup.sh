#!/bin/sh
# Build the overlay interpreter used by every check: /venv's Python 3.12 + z3 + CrossHair from the
# offline wheelhouse.  Idempotent; safe to call concurrently (flock).
set -e
cd "$(dirname "$0")"
VENV="$(pwd)/.venv"
exec 9>"$(pwd)/.setup.lock"
flock 9
if [ -x "$VENV/bin/python" ] && "$VENV/bin/python" -c "import z3, crosshair" 2>/dev/null; then
    exit 0
fi
rm -rf "$VENV"
/venv/bin/python -m venv "$VENV"
SP=$("$VENV/bin/python" -c "import site; print(site.getsitepackages()[0])")
printf '%s\n' "import site; site.addsitedir('/venv/lib/python3.12/site-packages')" > "$SP/_verif_overlay.pth"
PIP_NO_INDEX=1 "$VENV/bin/python" -m pip install -q --no-index --find-links /opt/veriftools/wheels z3-solver crosshair-tool >/dev/null
"$VENV/bin/python" -c "import z3, crosshair; print('verif venv ready: z3', z3.get_version_string())"
