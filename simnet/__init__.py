"""simnet — fake network + virtual-time kernel with lock-step threads, used to run the real
WebSocketApp.run_forever / Dispatcher / ping thread / connect offline.  Times may be solver reals
(bvsym.SymReal): the kernel orders wake-ups by comparing them, which forks, so each explored path is
one ordering class of events with the times inside it still symbolic.

Everything is injected into the repo modules' namespaces from outside (install/uninstall)."""
import base64
import errno
import hashlib
import socket as _socket
import threading as _th
from fractions import Fraction

import bvsym as sx
from bvsym import core

GUID = "258EAFA5-E914-47DA-95CA-C5AB0DC85B11"


class ThreadKill(BaseException):
    pass


class KernelStuck(Exception):
    pass


class KernelBudget(BaseException):
    """the scenario needs more kernel steps than its budget: the code under test does not come to an end (BaseException so
    that the library's `except Exception` handlers cannot turn it into an ordinary error and carry on)"""


core.NEVER_SWALLOW.extend([KernelBudget, ThreadKill])


class Proc:
    def __init__(self, name):
        self.name = name
        self.go = _th.Semaphore(0)
        self.ready_fn = None
        self.deadline = None
        self.done = False
        self.timed_out = False
        self.thread = None


def _lt(a, b):
    """a < b for Fractions/ints/SymReals (forks when symbolic)"""
    return bool(a < b)


def _le(a, b):
    return bool(a <= b)


class Kernel:
    def __init__(self, t0=1000, step_budget=600, explore_ties=True, explore_sched=False):
        self.now = Fraction(t0)
        self.t0 = Fraction(t0)
        self.procs = []
        self.main = Proc("main")
        self.procs.append(self.main)
        self.cur = self.main
        self.events = []  # [time, seq, fn]
        self.seq = 0
        self.dead = False
        self.steps = 0
        self.step_budget = step_budget
        self.log = []
        self.crash = None
        self.live_threads = []
        self.explore_ties = explore_ties
        self.explore_sched = explore_sched  # every scheduling decision between runnable threads is a solver choice; locks are preemption points
        self.nsched = 0
        self.ties = 0
        self.budget_exceeded = False
        self.yields = 0  # number of times the main thread yielded (used by harnesses to place preemptions)
        self.on_yield = None

    # ---- time helpers
    def rel(self):
        return self.now - self.t0

    def at(self, t, fn):
        self.seq += 1
        self.events.append([t, self.seq, fn])

    def after(self, d, fn):
        self.at(self.now + d, fn)

    # ---- blocking
    def block(self, ready_fn, timeout):
        """current proc waits until ready_fn() or until `timeout` elapsed; True if ready"""
        me = self.cur
        me.ready_fn = ready_fn
        me.deadline = None if timeout is None else self.now + timeout
        if me is self.main:
            self.yields += 1
            if self.on_yield is not None:
                self.on_yield(self.yields)
        self._schedule(me, exiting=False)
        if self.dead and me is not self.main:
            raise ThreadKill()
        r = not me.timed_out
        me.timed_out = False
        return r

    def yield_now(self):
        """let every other runnable thread run (used at explicit preemption points)"""
        self.block(lambda: True, None)

    def _runnable(self, p):
        if p.done:
            return False
        if p.ready_fn is None:
            return True
        return bool(p.ready_fn())

    def _fire_due(self):
        fired = False
        while True:
            due = [e for e in self.events if _le(e[0], self.now)]
            if not due:
                return fired
            # earliest first (ties by insertion order)
            e = due[0]
            for x in due[1:]:
                if _lt(x[0], e[0]):
                    e = x
            self.events = [x for x in self.events if x is not e]
            e[2]()
            fired = True

    def _schedule(self, me, exiting):
        while True:
            self.steps += 1
            sx.tick()
            if self.steps > self.step_budget:
                self.budget_exceeded = True
                raise KernelBudget("kernel step budget (%d) exhausted at t=%r" % (self.step_budget, self.now))
            if self._fire_due():
                continue
            # runnable procs other than `me` first when me is yielding (round robin), me included otherwise
            order = [p for p in self.procs if p is not me] + ([] if exiting else [me])
            cands = [p for p in order if self._runnable(p)]
            if not cands:
                dl = [p for p in order if not p.done and p.deadline is not None and _le(p.deadline, self.now)]
                if dl:
                    p = dl[0]
                    if len(dl) > 1 and self.explore_ties:
                        p = dl[sx.choice("tie%d" % self.ties, len(dl))]
                        self.ties += 1
                    p.timed_out = True
                    cands = [p]
            if cands:
                nxt = cands[0]
                if self.explore_sched and len(cands) > 1:
                    nxt = cands[sx.choice("sched%d" % self.nsched, len(cands))]
                    self.nsched += 1
                nxt.ready_fn = None
                nxt.deadline = None
                if exiting:
                    self.cur = nxt
                    nxt.go.release()
                    return
                self._switch(me, nxt)
                return
            times = [e[0] for e in self.events] + [p.deadline for p in self.procs if not p.done and p.deadline is not None]
            if not times:
                if exiting:
                    # the last runnable thread ends while the others wait for nothing: wake the main thread with the verdict
                    self.crash = KernelStuck("blocked forever at t=%r after a thread ended" % (self.now,))
                    self.dead = True
                    self.main.go.release()
                    return
                raise KernelStuck("nothing to wait for at t=%r (deadlock / blocked forever)" % (self.now,))
            m = times[0]
            for t in times[1:]:
                if _lt(t, m):
                    m = t
            self.now = m

    def _switch(self, me, nxt):
        if nxt is me:
            return
        self.cur = nxt
        nxt.go.release()
        me.go.acquire()
        self.cur = me
        if self.crash is not None and me is self.main:
            e = self.crash
            self.crash = None
            raise e

    def spawn(self, target, name):
        p = Proc(name)
        self.procs.append(p)

        def run():
            p.go.acquire()
            try:
                if not self.dead:
                    target()
            except ThreadKill:
                pass
            except BaseException as e:  # control exceptions and crashes are forwarded to the main thread
                self.crash = e
                self.dead = True
                p.done = True
                self.main.go.release()
                return
            finally:
                p.done = True
            if not self.dead:
                self.cur = p
                try:
                    self._schedule(p, exiting=True)
                except BaseException as e:
                    self.crash = e
                    self.dead = True
                    self.main.go.release()

        t = _th.Thread(target=run, daemon=True)
        p.thread = t
        t.start()
        return p

    def shutdown(self):
        self.dead = True
        for p in self.procs:
            if p is not self.main and not p.done:
                p.go.release()
        for p in self.procs:
            if p.thread is not None:
                p.thread.join(2)


# ----------------------------------------------------------------------------------------- fake modules
class FakeTime:
    def __init__(self, k):
        import time as _t
        self.k = k
        self._real = _t

    def __getattr__(self, name):
        return getattr(self.__dict__["_real"], name)

    def monotonic(self):
        return self.k.now

    def perf_counter(self):
        return self.k.now

    def time(self):
        return self.k.now

    def sleep(self, s):
        self.k.log.append((self.k.now, "sleep", s))
        self.k.block(lambda: False, s)


class FakeEvent:
    def __init__(self, k):
        self.k = k
        self.flag = False

    def set(self):
        self.flag = True

    def clear(self):
        self.flag = False

    def is_set(self):
        return self.flag

    def wait(self, timeout=None):
        if self.flag:
            return True
        self.k.block(lambda: self.flag, timeout)
        return self.flag


class FakeThread:
    def __init__(self, k, target=None, args=(), kwargs=None, **kw):
        self.k = k
        self.target = target
        self.args = args
        self.kwargs = kwargs or {}
        self.daemon = True
        self.p = None
        self.name = kw.get("name", "thread")

    def start(self):
        self.p = self.k.spawn(lambda: self.target(*self.args, **self.kwargs), self.name)
        self.k.live_threads.append(self)
        self.k.log.append((self.k.now, "thread-start"))

    def is_alive(self):
        return self.p is not None and not self.p.done

    def join(self, timeout=None):
        if self.is_alive():
            self.k.block(lambda: self.p.done, timeout)


class KLock:
    """threading.Lock for the lock-step world: a thread that finds the lock held parks in the kernel (a real Lock would
    block the only running OS thread forever)"""

    def __init__(self, k):
        self.k = k
        self.owner = None

    def acquire(self, blocking=True, timeout=-1):
        if self.k.explore_sched and not self.k.dead:
            self.k.yield_now()
        if self.owner is None:
            self.owner = self.k.cur
            return True
        if not blocking:
            return False
        ok = self.k.block(lambda: self.owner is None, None if timeout is None or timeout < 0 else timeout)
        if ok and self.owner is None:
            self.owner = self.k.cur
            return True
        return False

    def release(self):
        if self.owner is None:
            raise RuntimeError("release unlocked lock")
        self.owner = None
        if self.k.explore_sched and not self.k.dead:
            self.k.yield_now()

    def locked(self):
        return self.owner is not None

    def __enter__(self):
        self.acquire()
        return self

    def __exit__(self, *a):
        self.release()


class FakeThreading:
    def __init__(self, k):
        self.k = k
        self._real = _th
        self.RLock = _th.RLock
        self.current_thread = _th.current_thread

    def __getattr__(self, name):
        return getattr(_th, name)

    def Lock(self):
        return KLock(self.k)

    def Event(self):
        return FakeEvent(self.k)

    def Thread(self, target=None, **kw):
        return FakeThread(self.k, target, **kw)


class FakeSelector:
    def __init__(self, k):
        self.k = k
        self.socks = []
        self.closed = False

    def register(self, s, ev):
        self.socks.append(s)

    def unregister(self, s):
        self.socks.remove(s)

    def close(self):
        self.closed = True

    def select(self, timeout=None):
        def rdy():
            return any(s.kernel_readable() for s in self.socks)
        self.k.log.append((self.k.now, "select", timeout))
        if rdy() or self.k.block(rdy, timeout):
            return [((s,), 1) for s in self.socks if s.kernel_readable()]
        return []


class FakeSelectors:
    EVENT_READ = 1
    EVENT_WRITE = 2

    def __init__(self, k):
        import selectors as _s
        self.k = k
        self._real = _s

    def DefaultSelector(self):
        return FakeSelector(self.k)

    def __getattr__(self, name):
        if name.startswith("__"):
            raise AttributeError(name)
        return getattr(self.__dict__["_real"], name)


class FakeInspect:
    import inspect as _real

    @staticmethod
    def stack():
        return []


class FakeSocket:
    """TCP-like socket on the virtual kernel.  tls=True models an SSLSocket: the kernel buffer holds whole records;
    recv() decrypts one record into a pending buffer; pending() reports decrypted unread bytes; select sees only
    the kernel buffer."""

    def __init__(self, net, idx, tls=False):
        self.net = net
        self.k = net.k
        self.idx = idx
        self.tls = tls
        self.buf = b""  # plain: unread bytes
        self.records = []  # tls: undelivered records
        self.pend = b""  # tls: decrypted, unread
        self.eof = False
        self.reset = False
        self.closed = False
        self.timeout = None
        self.sent = b""
        self.sent_pieces = []
        self.opts = []
        self.server = None
        self.log = []
        self.connected_to = None
        self.shut = False

    # -- config
    def settimeout(self, t):
        self.timeout = t
        self.log.append(("settimeout", t))

    def gettimeout(self):
        return self.timeout

    def setsockopt(self, *a):
        self.opts.append(a)

    def fileno(self):
        return 100 + self.idx

    def connect(self, addr):
        outcome = self.net.connect_outcome(self, addr)
        self.k.log.append((self.k.now, "connect", self.idx, addr, outcome))
        self.log.append(("connect", addr, outcome))
        if outcome == "refused":
            raise ConnectionRefusedError(errno.ECONNREFUSED, "Connection refused")
        if outcome == "unreachable":
            raise OSError(errno.ENETUNREACH, "Network is unreachable")
        if outcome == "timeout":
            raise _socket.timeout("timed out")
        if outcome == "other":
            raise OSError(errno.EACCES, "Permission denied")
        self.connected_to = addr
        self.server = self.net.make_server(self)

    # -- readiness
    def kernel_readable(self):
        if self.tls:
            return bool(self.records) or self.eof or self.reset
        return bool(self.buf) or self.eof or self.reset

    def _has_data(self):
        if self.tls:
            return bool(self.pend) or bool(self.records) or self.eof or self.reset
        return bool(self.buf) or self.eof or self.reset

    def pending(self):
        return len(self.pend) if self.tls else 0

    def deliver(self, data):
        if self.closed:
            return
        if self.tls:
            self.records.append(data)
        else:
            self.buf = self.buf + data if len(self.buf) else data

    def recv(self, n):
        sx.tick()
        self.log.append(("recv", n, self.k.now))
        if self.closed:
            raise AssertionError("recv on closed socket %d" % self.idx)
        if not self._has_data():
            if not self.k.block(self._has_data, self.timeout):
                raise _socket.timeout("timed out")
        if isinstance(n, core.SymInt):
            avail = len(self.pend) if (self.tls and self.pend) else (len(self.records[0]) if self.tls and self.records else len(self.buf))
            n = avail if n >= avail else n.__index__()
        if self.tls:
            if not self.pend and self.records:
                self.pend = self.records.pop(0)
            if self.pend:
                out, self.pend = self.pend[:n], self.pend[n:]
                return out
        elif len(self.buf):
            out, self.buf = self.buf[:n], self.buf[n:]
            return out
        if self.reset:
            raise ConnectionResetError(errno.ECONNRESET, "Connection reset by peer")
        return b""

    def send(self, data):
        sx.tick()
        if self.closed:
            raise AssertionError("send on closed socket %d" % self.idx)
        if self.reset:
            raise BrokenPipeError(errno.EPIPE, "Broken pipe")
        if self.server is not None and self.server.shaken:
            # scripted write fault in the frame phase: spec["send_fault"] = {index of the write after the handshake: "timeout" | "epipe"}
            i = self.frame_sends = getattr(self, "frame_sends", -1) + 1
            fault = (self.server.spec.get("send_fault") or {}).get(i)
            if fault is not None:
                self.log.append(("send-fault", fault, self.k.now))
                if fault == "timeout":
                    raise _socket.timeout("timed out")
                raise BrokenPipeError(errno.EPIPE, "Broken pipe")
        self.log.append(("send", len(data), self.k.now))
        self.sent_pieces.append((self.k.now, data))
        self.sent = self.sent + data if len(self.sent) else data
        if self.server is not None:
            self.server.on_client_bytes(data)
        if self.net.yield_on_send:
            # preemption point: the bytes are out; every other runnable thread (e.g. the reading loop seeing an immediate
            # reply) may run before the sender continues
            self.k.yield_now()
        return len(data)

    def sendall(self, data):
        self.send(data)

    def shutdown(self, how):
        self.shut = True
        self.log.append(("shutdown",))

    def close(self):
        if not self.closed:
            self.closed = True
            self.log.append(("close", self.k.now))
            self.k.log.append((self.k.now, "sock-close", self.idx))


def accept_for(key):
    return base64.b64encode(hashlib.sha1((key + GUID).encode()).digest()).decode()


class Server:
    """answers the opening handshake (status/headers configurable), then plays a script of (delay, item);
    item: bytes-like (delivered as one segment / TLS record), "EOF", "RESET", or a callable(server)"""

    def __init__(self, net, sock, spec):
        self.net = net
        self.sock = sock
        self.k = net.k
        self.spec = spec
        self.inbuf = b""
        self.shaken = False
        self.frames_in = b""
        self.request = None

    def on_client_bytes(self, data):
        if self.shaken:
            self.frames_in = self.frames_in + data if len(self.frames_in) else data
            self.net.client_frames.append((self.k.now, self.sock.idx, data))
            hook = self.spec.get("on_frame_bytes")
            if hook:
                hook(self, data)
            return
        self.inbuf += bytes(data)
        if b"\r\n\r\n" in self.inbuf:
            self.request = self.inbuf
            head = self.inbuf.split(b"\r\n\r\n")[0].decode("latin-1")
            self.net.requests.append((self.k.now, self.sock.idx, head))
            keys = [l.split(":", 1)[1].strip() for l in head.split("\r\n") if l.lower().startswith("sec-websocket-key")]
            key = keys[0] if keys else ""
            respond = self.spec.get("respond")
            if respond is not None:
                resp = respond(self, head, key)
            elif self.spec.get("reject"):
                resp = b"HTTP/1.1 403 Forbidden\r\n\r\n"
            else:
                resp = ("HTTP/1.1 101 Switching Protocols\r\nUpgrade: websocket\r\nConnection: Upgrade\r\n"
                        "Sec-WebSocket-Accept: %s\r\n\r\n" % accept_for(key)).encode()
            self.shaken = True
            if isinstance(resp, tuple):  # (response, "more-http"): another HTTP request follows on this connection (proxy tunnel)
                resp = resp[0]
                self.shaken = False
                self.inbuf = b""
            if resp is not None:
                # the handshake response is read byte-wise with recv(1); deliver it at once
                if self.sock.tls:
                    self.sock.records.append(resp)
                else:
                    self.sock.buf = self.sock.buf + resp if len(self.sock.buf) else resp
            t = self.k.now
            for delay, item in (self.spec.get("script", []) if self.shaken else []):
                t = t + delay
                self.k.at(t, lambda item=item: self.deliver(item))

    def deliver(self, item):
        if self.sock.closed:
            return
        if isinstance(item, str):
            if item == "EOF":
                self.sock.eof = True
            elif item == "RESET":
                self.sock.reset = True
            else:
                raise AssertionError(item)
        elif callable(item):
            item(self)
        else:
            self.k.log.append((self.k.now, "deliver", self.sock.idx, len(item)))
            self.sock.deliver(item)


class Net:
    def __init__(self, k, specs, outcomes=None, addrinfo=None, tls=False):
        """specs: list of server specs, one per *connected* socket in order (last one repeats);
        outcomes: dict socket-index -> connect outcome ('accept' default)"""
        self.k = k
        self.specs = specs
        self.outcomes = outcomes or {}
        self.socks = []
        self.client_frames = []
        self.requests = []
        self.resolved = []
        self.addrinfo = addrinfo
        self.tls = tls
        self.nconnected = 0
        self.yield_on_send = False

    def connect_outcome(self, sock, addr):
        return self.outcomes.get(sock.idx, "accept")

    def make_server(self, sock):
        spec = self.specs[min(self.nconnected, len(self.specs) - 1)]
        self.nconnected += 1
        return Server(self, sock, spec)

    def open_sockets(self):
        return [s for s in self.socks if s.connected_to is not None and not s.closed]


class FakeSocketModule:
    def __init__(self, net):
        self.net = net
        self._real = _socket
        for n in dir(_socket):
            if n.isupper() or n in ("error", "timeout", "gaierror", "herror"):
                setattr(self, n, getattr(_socket, n))
        self.inet_aton = _socket.inet_aton

    def __getattr__(self, name):
        if name.startswith("__"):
            raise AttributeError(name)
        return getattr(_socket, name)

    def getaddrinfo(self, host, port, *a):
        self.net.resolved.append((host, port) + tuple(a))
        self.net.k.log.append((self.net.k.now, "resolve", host, port))
        if self.net.addrinfo is not None:
            r = self.net.addrinfo(host, port) if callable(self.net.addrinfo) else self.net.addrinfo
            if isinstance(r, BaseException):
                raise r
            return r
        return [(_socket.AF_INET, _socket.SOCK_STREAM, 6, "", ("10.0.0.1", port))]

    def socket(self, *a):
        s = FakeSocket(self.net, len(self.net.socks), tls=False)
        s.family = a
        self.net.socks.append(s)
        return s


_PATCH = []  # the EnvPatch objects of nested install() calls


class FakeTLSContext:
    """what `ssl.SSLContext(...)` gives the repository's code in tls=True runs: every configuration call is accepted,
    wrap_socket() marks the fake socket as a TLS socket (record-wise delivery, pending()) - no handshake, no certificates"""

    def __init__(self, *a, **k):
        import ssl
        self.check_hostname = True
        self.verify_mode = ssl.CERT_REQUIRED

    def __getattr__(self, name):
        if name.startswith("__"):
            raise AttributeError(name)
        return lambda *a, **k: None

    def wrap_socket(self, sock, **kw):
        sock.tls = True
        sock.tls_hostname = kw.get("server_hostname")
        return sock


def install(k, net, tls=False):
    """Replace the environment as seen from EVERY loaded websocket.* module, by identity of the real stdlib object (module or
    function), so that the import style of the repository (`import threading` / `from threading import Lock`, a helper moved
    to another module) does not matter."""
    import inspect as _inspect
    import selectors as _selectors
    import ssl as _ssl
    import time as _time
    from harness.envpatch import EnvPatch, ModProxy
    ep = EnvPatch()
    ft = FakeTime(k)
    ep.replace(_time, ft)
    ep.replace(_time.time, ft.time)
    ep.replace(_time.sleep, ft.sleep)
    fth = FakeThreading(k)
    ep.replace(_th, fth)
    ep.replace(_th.Lock, fth.Lock)
    ep.replace(_th.Event, fth.Event)
    ep.replace(_th.Thread, fth.Thread)
    fs = FakeSelectors(k)
    ep.replace(_selectors, fs)
    ep.replace(_selectors.DefaultSelector, fs.DefaultSelector)
    ep.replace(_socket, FakeSocketModule(net))
    ep.replace(_inspect, ModProxy(_inspect, stack=FakeInspect.stack))
    ep.replace(_inspect.stack, FakeInspect.stack)
    if tls:
        ep.replace(_ssl, ModProxy(_ssl, SSLContext=FakeTLSContext, create_default_context=FakeTLSContext))
    _PATCH.append(ep)


def uninstall():
    while _PATCH:
        _PATCH.pop().restore()


ASSUMPTIONS = [
    "simnet: socket/selectors/time/threading are replaced in the repo modules' namespaces by a virtual-time kernel; "
    "threads run in lock-step and switch only at environment interactions (select, blocking recv, Event.wait, sleep, join)",
    "simnet: select() reports readable iff the fake kernel buffer is non-empty (TLS flavour: iff an undecrypted record is "
    "queued; pending() = decrypted unread bytes); a timed-out wait takes exactly its timeout",
    "simnet: send() accepts everything at once unless the server spec scripts a write fault (send_fault: timeout / broken pipe at the n-th write after the handshake); EAGAIN/SSLWantRead never occur on the virtual network (would-block faults are exercised on the scripted FakeSock of harness/common.py: C03 S-part, C07 G-one, C12 W-eagain)",
    "inspect.stack() (used only inside log messages) is stubbed",
]
