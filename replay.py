#!/usr/bin/env python3
"""Native replay of a counterexample:  /venv/bin/python replay.py <file.json>

Runs the same harness function in *concrete* mode: inputs come from the solver model stored in the
file, the package is the unmodified one imported from /repo (no import hook, no shims, no solver),
and require() is an ordinary assertion.  Exit 1 = the violation reproduces, 0 = it does not,
2 = the replay itself failed.
"""
import importlib
import json
import os
import sys
import traceback

HERE = os.path.dirname(os.path.abspath(__file__))
sys.path.insert(0, HERE)
sys.dont_write_bytecode = True


def main():
    path = sys.argv[1]
    body = json.load(open(path))
    if body.get("kind") == "crosshair":
        from bvsym import chrun
        sys.exit(chrun.replay_file(body))
    from bvsym import core, loader
    core.MODE = "concrete"
    core.CONC = body["model"]
    loader.activate()
    mod = importlib.import_module(body["harness"])
    fn = getattr(mod, body["fn"])
    try:
        fn(**body["params"])
    except core.ConcreteFailure as e:
        print("REPRODUCED property=%s obligation=%s assertion=%r (solver reported %r)" % (
            body["property"], body["obligation"], str(e), body["label"]))
        sys.exit(1)
    except core.ReplayMismatch as e:
        print("NOT-REPRODUCED (replay diverged): %s" % e)
        sys.exit(0)
    except core.Stop:
        print("NOT-REPRODUCED (harness stopped without failing assertion)")
        sys.exit(0)
    except BaseException:
        traceback.print_exc()
        print("REPLAY-ERROR")
        sys.exit(2)
    print("NOT-REPRODUCED (all assertions held natively)")
    sys.exit(0)


if __name__ == "__main__":
    main()
