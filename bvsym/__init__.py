"""bvsym — bounded symbolic execution of the repository's own Python code on z3 bit-vectors.

Harness-facing API (works in symbolic and in concrete/replay mode):
    sym_bytes, sym_int, sym_bool, sym_real, sym_str, choice, assume, require,
    And, Or, Not, Implies, Iff, If, text_of, utf8_valid, unsupported, note, tick
"""
from . import core, strs, utf8ref
from .core import (And, If, Iff, Implies, Not, Or, SymBool, SymBytes, SymInt, SymReal, SymTable,  # noqa
                   Control, PathAbort, Stop, Unsupported, Unwound, Violation, ConcreteFailure,
                   ReplayMismatch, UnitMissing, unit, assume, choice, concrete_value, is_symbolic, mk_bytes, note,
                   require, sym_bool, sym_bytes, sym_int, sym_real, tick, unsupported)
from .strs import SymStr, SymText, contains, mk_str, sym_str, text_of  # noqa


def mode():
    return core.MODE


def utf8_valid(b):
    """reference predicate (independent of the repository) — bool or SymBool"""
    if isinstance(b, (bytes, bytearray)):
        return utf8ref.valid_concrete(b)
    return SymBool(utf8ref.valid_term([core._bv8(x) for x in b.b]))


def byte_at(b, i):
    """i-th byte as int / SymInt (works for bytes and SymBytes)"""
    return b[i]


def ctx():
    return core.CTX


def to_bytes_be(v, n):
    """big-endian n-byte encoding of a (possibly symbolic) non-negative int"""
    if isinstance(v, SymInt):
        return v.to_bytes(n, "big")
    return int(v).to_bytes(n, "big")


def from_bytes_be(b):
    from . import shims
    return shims.IntShim.from_bytes(b, "big")


def cat(*parts):
    out = b""
    for p in parts:
        out = out + p
    return out
