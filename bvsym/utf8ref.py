"""Independent reference for 'well-formed UTF-8' (Unicode 15, Table 3-7), written as a small
DFA over byte classes.  Used as the oracle for C06 and by SymBytes.decode.  It shares nothing
with websocket/_utils.py.

States: 0 accept, 1 need one continuation (80..BF), 2 need two (generic), 3 after E0 (A0..BF),
4 after ED (80..9F), 5 after F0 (90..BF), 6 need three (generic, after F1..F3), 7 after F4
(80..8F), 8 dead.
"""
try:
    import z3
except ImportError:  # concrete (replay) mode needs no solver
    z3 = None

ACCEPT, DEAD = 0, 8
NSTATES = 9


def step_concrete(s, b):
    if s == 0:
        if b <= 0x7F:
            return 0
        if 0xC2 <= b <= 0xDF:
            return 1
        if b == 0xE0:
            return 3
        if 0xE1 <= b <= 0xEC or 0xEE <= b <= 0xEF:
            return 2
        if b == 0xED:
            return 4
        if b == 0xF0:
            return 5
        if 0xF1 <= b <= 0xF3:
            return 6
        if b == 0xF4:
            return 7
        return 8
    if s == 1:
        return 0 if 0x80 <= b <= 0xBF else 8
    if s == 2:
        return 1 if 0x80 <= b <= 0xBF else 8
    if s == 3:
        return 1 if 0xA0 <= b <= 0xBF else 8
    if s == 4:
        return 1 if 0x80 <= b <= 0x9F else 8
    if s == 5:
        return 2 if 0x90 <= b <= 0xBF else 8
    if s == 6:
        return 2 if 0x80 <= b <= 0xBF else 8
    if s == 7:
        return 2 if 0x80 <= b <= 0x8F else 8
    return 8


def valid_concrete(bs):
    s = 0
    for b in bs:
        s = step_concrete(s, b)
    return s == 0


def _rng(b, lo, hi):
    return z3.And(z3.UGE(b, lo), z3.ULE(b, hi))


def step_term(s, b):
    """s: BV4 term, b: BV8 term -> BV4 term"""
    def S(n):
        return z3.BitVecVal(n, 4)

    from0 = z3.If(z3.ULE(b, 0x7F), S(0),
            z3.If(_rng(b, 0xC2, 0xDF), S(1),
            z3.If(b == 0xE0, S(3),
            z3.If(z3.Or(_rng(b, 0xE1, 0xEC), _rng(b, 0xEE, 0xEF)), S(2),
            z3.If(b == 0xED, S(4),
            z3.If(b == 0xF0, S(5),
            z3.If(_rng(b, 0xF1, 0xF3), S(6),
            z3.If(b == 0xF4, S(7), S(8)))))))))
    return z3.If(s == 0, from0,
           z3.If(s == 1, z3.If(_rng(b, 0x80, 0xBF), S(0), S(8)),
           z3.If(s == 2, z3.If(_rng(b, 0x80, 0xBF), S(1), S(8)),
           z3.If(s == 3, z3.If(_rng(b, 0xA0, 0xBF), S(1), S(8)),
           z3.If(s == 4, z3.If(_rng(b, 0x80, 0x9F), S(1), S(8)),
           z3.If(s == 5, z3.If(_rng(b, 0x90, 0xBF), S(2), S(8)),
           z3.If(s == 6, z3.If(_rng(b, 0x80, 0xBF), S(2), S(8)),
           z3.If(s == 7, z3.If(_rng(b, 0x80, 0x8F), S(2), S(8)), S(8)))))))))


def state_term(byte_terms, start=0):
    s = z3.BitVecVal(start, 4)
    for b in byte_terms:
        if isinstance(b, int):
            b = z3.BitVecVal(b, 8)
        s = z3.simplify(step_term(s, b))
    return s


def valid_term(byte_terms):
    return state_term(byte_terms) == 0
