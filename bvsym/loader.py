"""Import hook: loads websocket.* from the *current source files* of the repository (never from
.pyc), applies three semantics-preserving AST rewrites, and installs the shims in the module
globals.  In concrete (replay) mode the package is imported natively instead."""
import ast
import hashlib
import importlib.abc
import importlib.machinery
import importlib.util
import os
import sys

from . import core, shims, strs

REPO = os.environ.get("VERIF_REPO", "/repo")
SOURCES = {}  # module name -> sha256 of the source compiled


class _Rewrite(ast.NodeTransformer):
    def visit_Constant(self, node):
        if isinstance(node.value, str) and node.value.isascii() and len(node.value) <= 40:
            strs.register_literal(node.value)
            strs.register_literal(node.value.lower())
        return node

    def visit_Call(self, node):
        self.generic_visit(node)
        f = node.func
        if (isinstance(f, ast.Attribute) and f.attr == "join" and isinstance(f.value, ast.Constant)
                and isinstance(f.value.value, (bytes, str)) and len(node.args) == 1 and not node.keywords):
            return ast.copy_location(
                ast.Call(func=ast.Name(id="sx_join_", ctx=ast.Load()), args=[f.value] + node.args, keywords=[]),
                node)
        if (isinstance(f, ast.Attribute) and f.attr in self._METHODS and not node.keywords
                and not any(isinstance(a, ast.Starred) for a in node.args)):
            # a plain str/bytes receiver cannot take proxy arguments: dispatch through a helper that lifts the receiver
            return ast.copy_location(
                ast.Call(func=ast.Name(id="sx_m_", ctx=ast.Load()), args=[f.value, ast.Constant(value=f.attr)] + node.args, keywords=[]),
                node)
        return node

    _METHODS = {"startswith", "endswith", "find", "index", "count", "split", "replace", "partition", "strip", "lstrip", "rstrip", "join", "get"}

    def visit_Subscript(self, node):
        self.generic_visit(node)
        if isinstance(node.ctx, ast.Load) and not isinstance(node.slice, (ast.Slice, ast.Tuple, ast.Constant)):
            # a computed subscript may be a symbolic int meeting a concrete dict / list / tuple / bytes (table-driven code)
            return ast.copy_location(
                ast.Call(func=ast.Name(id="sx_sub_", ctx=ast.Load()), args=[node.value, node.slice], keywords=[]), node)
        return node

    def visit_Compare(self, node):
        self.generic_visit(node)
        if len(node.ops) == 1 and isinstance(node.ops[0], (ast.In, ast.NotIn)):
            call = ast.Call(func=ast.Name(id="sx_in_", ctx=ast.Load()), args=[node.left, node.comparators[0]], keywords=[])
            if isinstance(node.ops[0], ast.NotIn):
                call = ast.UnaryOp(op=ast.Not(), operand=call)
            return ast.copy_location(call, node)
        return node

    _SHIMMED_MODULES = {"struct": "sx_struct_", "array": "sx_array_", "codecs": "sx_codecs_"}

    def visit_Import(self, node):
        # `import struct` / `import array`: the name is rebound to the proxy-aware module right away, so that objects created at
        # import time (struct.Struct("!H") constants) are proxy-aware too
        out = [node]
        for a in node.names:
            if a.name in self._SHIMMED_MODULES:
                out.append(ast.copy_location(ast.Assign(targets=[ast.Name(id=a.asname or a.name, ctx=ast.Store())],
                                                        value=ast.Name(id=self._SHIMMED_MODULES[a.name], ctx=ast.Load())), node))
        return out if len(out) > 1 else node

    def visit_ImportFrom(self, node):
        out = [node]
        if node.level == 0 and node.module in self._SHIMMED_MODULES:
            shim = {"struct": shims.StructShim, "array": shims.ArrayModShim, "codecs": shims.CodecsShim}[node.module]
            for a in node.names:
                if a.name != "*" and a.name in _public_names(shim):
                    out.append(ast.copy_location(ast.Assign(
                        targets=[ast.Name(id=a.asname or a.name, ctx=ast.Store())],
                        value=ast.Attribute(value=ast.Name(id=self._SHIMMED_MODULES[node.module], ctx=ast.Load()), attr=a.name, ctx=ast.Load())), node))
        return out if len(out) > 1 else node

    def visit_JoinedStr(self, node):
        self.generic_visit(node)
        args = []
        for v in node.values:
            if isinstance(v, ast.Constant):
                args.append(v)
            elif isinstance(v, ast.FormattedValue):
                spec = v.format_spec if v.format_spec is not None else ast.Constant(value="")
                if isinstance(spec, ast.JoinedStr):
                    spec = self.visit_JoinedStr(spec) if not isinstance(spec, ast.Call) else spec
                args.append(ast.Tuple(elts=[v.value, ast.Constant(value=v.conversion), spec], ctx=ast.Load()))
            else:
                args.append(v)
        return ast.copy_location(
            ast.Call(func=ast.Name(id="sx_fmt_", ctx=ast.Load()), args=args, keywords=[]), node)

    def visit_ExceptHandler(self, node):
        self.generic_visit(node)
        hook = ast.Expr(value=ast.Call(func=ast.Name(id="sx_seen_", ctx=ast.Load()), args=[], keywords=[]))
        node.body = [ast.copy_location(hook, node.body[0])] + node.body
        return node


_PROXY_NAMES = ("SymInt", "SymBytes", "SymStr", "SymBool", "SymReal", "SymText", "SymTable",
                "ArrayShim", "SymChr", "AbstractPayload")


def _never_swallowed():
    return (core.Control, core.ConcreteFailure, core.ReplayMismatch) + tuple(core.NEVER_SWALLOW)


def _patch_suppress():
    """`with contextlib.suppress(BaseException):` is a bare `except: pass` in other clothes: it must not swallow the engine's
    control exceptions either (same reason as AST rewrite (c))"""
    import contextlib
    if getattr(contextlib.suppress, "_sx_patched", False):
        return
    orig = contextlib.suppress.__exit__

    def __exit__(self, exctype, excinst, exctb):
        if exctype is not None and issubclass(exctype, _never_swallowed()):
            return False
        return orig(self, exctype, excinst, exctb)
    contextlib.suppress.__exit__ = __exit__
    contextlib.suppress._sx_patched = True


def seen_shim():
    e = sys.exc_info()[1]
    if isinstance(e, _never_swallowed()):
        raise e
    if isinstance(e, (TypeError, AttributeError)) and any(n in str(e) for n in _PROXY_NAMES):
        if core.CTX is not None:
            core.CTX.flag = "unsupported"
        raise core.Unsupported("proxy reached code that cannot take it: %s" % e)


class Loader(importlib.machinery.SourceFileLoader):
    def source_to_code(self, data, path, *, _optimize=-1):
        tree = ast.parse(data, path)
        tree = _Rewrite().visit(tree)
        ast.fix_missing_locations(tree)
        return compile(tree, path, "exec", dont_inherit=True, optimize=_optimize)

    def get_code(self, fullname):
        path = self.get_filename(fullname)
        data = self.get_data(path)
        SOURCES[fullname] = hashlib.sha256(data).hexdigest()
        return self.source_to_code(data, path)

    def exec_module(self, module):
        g = module.__dict__
        g["sx_join_"] = strs.join_shim
        g["sx_fmt_"] = strs.fmt_shim
        g["sx_seen_"] = seen_shim
        g["sx_in_"] = strs.in_shim
        g["sx_m_"] = strs.method_shim
        g["sx_sub_"] = shims.sub_shim
        g["sx_struct_"] = shims.StructShim
        g["sx_array_"] = shims.ArrayModShim
        g["sx_codecs_"] = shims.CodecsShim
        super().exec_module(module)
        install(module)


def _public_names(shim):
    """names a shim class overrides itself (a `from module import name` of anything else keeps the real object)"""
    out = set()
    for c in shim.__mro__:
        if c is object:
            continue
        out.update(k for k in c.__dict__ if not k.startswith("_"))
    return out


class Finder(importlib.abc.MetaPathFinder):
    def __init__(self, root):
        self.root = root

    def find_spec(self, name, path, target=None):
        if name != "websocket" and not name.startswith("websocket."):
            return None
        parts = name.split(".")
        base = os.path.join(self.root, *parts)
        if os.path.isdir(base):
            fn = os.path.join(base, "__init__.py")
            return importlib.util.spec_from_file_location(
                name, fn, loader=Loader(name, fn), submodule_search_locations=[base])
        fn = base + ".py"
        if os.path.exists(fn):
            return importlib.util.spec_from_file_location(name, fn, loader=Loader(name, fn))
        return None


def install(mod):
    g = mod.__dict__
    import array as _a
    import struct as _s
    if g.get("struct") is _s:
        g["struct"] = shims.StructShim
    if g.get("array") is _a:
        g["array"] = shims.ArrayModShim
    import codecs as _c
    if g.get("codecs") is _c:
        g["codecs"] = shims.CodecsShim
    g["chr"] = shims.chr_shim
    g["ord"] = shims.ord_shim
    g["int"] = shims.IntShim
    g["isinstance"] = shims.isinstance_shim
    g["len"] = shims.len_shim
    g["min"] = shims.min_shim
    g["max"] = shims.max_shim
    g["sum"] = shims.sum_shim
    g["type"] = shims.type_shim
    g["bytes"] = shims.BytesShim
    g["bytearray"] = shims.ByteArrayShim
    g["memoryview"] = shims.MemoryViewShim
    if mod.__name__ == "websocket._utils" and "_UTF8D" in g:
        g["_UTF8D"] = core.SymTable(g["_UTF8D"])


SHIM_LIST = [
    "struct.pack/unpack (!B !H !I !Q) -> exact bit-vector (de)composition",
    "array.array('B') -> byte-list wrapper",
    "chr(x).encode('latin-1') -> one symbolic byte with range check",
    "int(), int.from_bytes / int.to_bytes -> exact-width bit-vectors, byte-decomposed",
    "isinstance/type/len/min/max/sum -> proxy-aware versions",
    "bytes(...) / bytearray(...) / memoryview(...) -> stand-ins: bytearray() is a mutable buffer that can hold symbolic elements (extend, +=, slice "
    "assignment / deletion, append, pop ...), memoryview of a symbolic buffer is a read-only snapshot with tobytes()/slicing/release(), bytes(x) of "
    "a proxy is a proxy; isinstance/type answer as for the real types",
    "codecs.utf_8_decode (incl. final=False) / decode / ascii_decode / latin_1_decode and str(bytes, encoding) on symbolic bytes -> the engine's "
    "decoder (reference DFA)",
    "_utils._UTF8D -> same numbers, symbolic index through an ITE mux tree",
    "bytes.join / str.join on literals and f-strings -> proxy-aware concatenation (AST rewrite)",
    "every except-handler first re-raises engine control exceptions (AST rewrite)",
    "`x in y` / `x not in y` and str/bytes method calls (startswith, endswith, find, split, replace, ...) dispatch through helpers that lift a "
    "concrete receiver when an argument is a proxy (AST rewrite; identical to the native operation when no proxy is involved)",
    "computed subscripts `a[i]`, `d.get(k)` and `k in {set/dict}` with a symbolic int key on a concrete dict / list / tuple / bytes: one fork per dict "
    "key, an ITE mux for tables of small ints, one fork per position otherwise (AST rewrite; native operation when the key is concrete)",
    "`import struct` / `import array` / `from struct import ...` rebind the imported names to the proxy-aware module at the import statement (AST "
    "rewrite), so struct.Struct constants created at import time are proxy-aware",
    "contextlib.suppress never suppresses the engine's / the virtual-time kernel's control exceptions",
    "module-level data of websocket.* (and the attribute dicts of module-level instances of its classes, e.g. the cookie jar) is put back to its "
    "post-import state before every explored path",
    "environment stand-ins (os.urandom, os.environ, hashlib, hmac, base64, ssl, time, threading, selectors, socket, inspect) are bound by identity in "
    "every loaded websocket.* module and, while a patch is active, in sys.modules",
]

_active = False
_SNAP = {}  # module name -> {global name: (kind, value)}
_DATA = (int, float, str, bytes, bool, type(None), tuple, frozenset)


def _snap_module(name, mod):
    snap = {}
    for k, v in list(mod.__dict__.items()):
        if k.startswith("__") or k.startswith("sx_"):
            continue
        if type(v) in _DATA:
            snap[k] = ("ref", v, None)
        elif type(v) in (dict, list, set):
            snap[k] = ("copy", v, type(v)(v))
        elif (getattr(type(v), "__module__", "") or "").startswith("websocket") and not isinstance(v, type) \
                and isinstance(getattr(v, "__dict__", None), dict):
            # a module-level INSTANCE of one of the repository's classes (the process-wide cookie jar): its attribute dict
            attrs = {}
            for ak, av in v.__dict__.items():
                if type(av) in _DATA:
                    attrs[ak] = ("ref", av, None)
                elif type(av) in (dict, list, set):
                    attrs[ak] = ("copy", av, type(av)(av))
            snap[k] = ("inst", v, attrs)
    _SNAP[name] = snap


def restore_globals():
    """Module-level data of websocket.* (defaults set through setdefaulttimeout/setReconnect/enableTrace, caches a change may
    introduce) is put back to its state after import before every explored path: one path is one fresh process as far as the
    library can tell, exactly what the native replay of a counterexample is."""
    for name, mod in list(sys.modules.items()):
        if mod is None or not (name == "websocket" or name.startswith("websocket.")):
            continue
        snap = _SNAP.get(name)
        if snap is None:
            _snap_module(name, mod)
            continue
        g = mod.__dict__
        for k, (kind, obj, copy) in snap.items():
            if kind == "ref":
                if g.get(k, _SNAP) is not obj:
                    g[k] = obj
            elif kind == "inst":
                if g.get(k, _SNAP) is not obj:
                    g[k] = obj
                for ak, (akind, aobj, acopy) in copy.items():
                    if akind == "copy" and aobj != acopy:
                        aobj.clear()
                        (aobj.extend if type(aobj) is list else aobj.update)(acopy)
                    if obj.__dict__.get(ak, _SNAP) is not aobj:
                        obj.__dict__[ak] = aobj
            else:
                if obj != copy:
                    obj.clear()
                    (obj.extend if type(obj) is list else obj.update)(copy)
                if g.get(k, _SNAP) is not obj:
                    g[k] = obj


def activate(root=None):
    """Load the repository symbolically (mode 'sym') or natively (mode 'concrete')."""
    global _active
    root = root or REPO
    _patch_suppress()
    for k in list(sys.modules):
        if k == "websocket" or k.startswith("websocket."):
            del sys.modules[k]
    if core.MODE == "concrete":
        sys.meta_path[:] = [f for f in sys.meta_path if not isinstance(f, Finder)]
        if root not in sys.path:
            sys.path.insert(0, root)
        sys.dont_write_bytecode = True
        import websocket  # noqa
        if not os.path.abspath(websocket.__file__).startswith(os.path.abspath(root)):
            raise RuntimeError("websocket imported from %s, not from %s" % (websocket.__file__, root))
        return
    sys.meta_path[:] = [f for f in sys.meta_path if not isinstance(f, Finder)]
    sys.meta_path.insert(0, Finder(root))
    _active = True
    import websocket  # noqa
    import websocket._abnf, websocket._core, websocket._app, websocket._utils  # noqa
    _SNAP.clear()
    restore_globals()  # first call takes the snapshots
