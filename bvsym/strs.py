"""ASCII symbolic strings (SymStr) and opaque decoded text (SymText).

SymStr: concrete length, each character an int code point or an 8-bit term constrained < 128
(the ASCII bound is part of every claim that uses it).  Exact ASCII semantics of the str
methods the repository uses.  Methods that change the length (strip/split/replace) fork.
"""
import builtins

try:
    import z3
except ImportError:  # concrete (replay) mode needs no solver
    z3 = None

from . import core, utf8ref
from .core import SymBool, SymBytes, SymInt, Unsupported, _bv8

STR_WS = (9, 10, 11, 12, 13, 28, 29, 30, 31, 32)  # str.isspace() within ASCII
LITERALS = {}  # len -> set of str literals found in the repo sources (filled by the loader)


def register_literal(s):
    LITERALS.setdefault(len(s), set()).add(s)


def _code(ch):
    return ch if isinstance(ch, builtins.int) else None


class SymStr:
    __slots__ = ("c",)

    def __init__(self, chars):
        out = []
        for x in chars:
            if isinstance(x, str):
                x = ord(x)
            elif not isinstance(x, builtins.int):
                if x.num_args() != 0:
                    x = z3.simplify(x)
                if z3.is_bv_value(x):
                    x = x.as_long()
            out.append(x)
        self.c = out

    # ---- basics
    def __len__(self):
        return len(self.c)

    def __repr__(self):
        return "<symstr len=%d>" % len(self.c)

    def __str__(self):
        return "<symstr len=%d>" % len(self.c)

    def __format__(self, spec):
        return str(self)

    def __bool__(self):
        return len(self.c) > 0

    def __iter__(self):
        for x in self.c:
            yield mk_str([x])

    def __getitem__(self, i):
        if isinstance(i, slice):
            def cv(x):
                return x.__index__() if isinstance(x, SymInt) else x
            return mk_str(self.c[slice(cv(i.start), cv(i.stop), cv(i.step))])
        if isinstance(i, SymInt):
            i = i.__index__()
        return mk_str([self.c[i]])

    def __add__(self, o):
        if isinstance(o, str):
            return mk_str(self.c + [ord(x) for x in o])
        if isinstance(o, SymStr):
            return mk_str(self.c + o.c)
        return NotImplemented

    def __radd__(self, o):
        if isinstance(o, str):
            return mk_str([ord(x) for x in o] + self.c)
        return NotImplemented

    def __mul__(self, k):
        return mk_str(self.c * k)

    def _eq_term(self, o):
        if isinstance(o, str):
            if not o.isascii():
                return False
            oc = [ord(x) for x in o]
        elif isinstance(o, SymStr):
            oc = o.c
        elif isinstance(o, SymText):
            return o.__eq__(self)
        else:
            return False
        if len(oc) != len(self.c):
            return False
        cs = []
        for x, y in zip(self.c, oc):
            if isinstance(x, builtins.int) and isinstance(y, builtins.int):
                if x != y:
                    return False
            else:
                cs.append(_bv8(x) == _bv8(y))
        if not cs:
            return True
        return SymBool(z3.And(cs))

    def __eq__(self, o):
        return self._eq_term(o)

    def __ne__(self, o):
        return core.Not(self._eq_term(o))

    def __hash__(self):
        # consistent with str.__hash__ for every literal the repository can compare against
        for cand in sorted(LITERALS.get(len(self.c), ())):
            if self._eq_term(cand):
                return hash(cand)
        return hash(("symstr", len(self.c)))

    def __lt__(self, o):
        raise Unsupported("ordering of symbolic strings")

    __gt__ = __le__ = __ge__ = __lt__

    def __contains__(self, sub):
        return bool(self.contains_term(sub))

    def contains_term(self, sub):
        if isinstance(sub, str):
            subc = [ord(x) for x in sub]
        elif isinstance(sub, SymStr):
            subc = sub.c
        else:
            raise TypeError("'in <string>' requires string as left operand")
        n, m = len(self.c), len(subc)
        if m == 0:
            return True
        if m > n:
            return False
        alts = [SymStr(self.c[i:i + m])._eq_term(SymStr(subc)) for i in range(n - m + 1)]
        return core.Or(alts)

    # ---- case
    def _map(self, f_conc, f_term):
        return mk_str([f_conc(x) if isinstance(x, builtins.int) else f_term(x) for x in self.c])

    def lower(self):
        return self._map(lambda x: x + 32 if 65 <= x <= 90 else x,
                         lambda t: z3.If(z3.And(z3.UGE(t, 65), z3.ULE(t, 90)), t + 32, t))

    def upper(self):
        return self._map(lambda x: x - 32 if 97 <= x <= 122 else x,
                         lambda t: z3.If(z3.And(z3.UGE(t, 97), z3.ULE(t, 122)), t - 32, t))

    def isascii(self):
        return True

    # ---- tests
    def startswith(self, p, *a):
        if a:
            raise Unsupported("startswith with offsets")
        if isinstance(p, tuple):
            return any(self.startswith(x) for x in p)
        if len(p) > len(self.c):
            return False
        return bool(SymStr(self.c[: len(p)])._eq_term(p)) if len(p) else True

    def endswith(self, p, *a):
        if a:
            raise Unsupported("endswith with offsets")
        if isinstance(p, tuple):
            return any(self.endswith(x) for x in p)
        if len(p) > len(self.c):
            return False
        return bool(SymStr(self.c[len(self.c) - len(p):])._eq_term(p)) if len(p) else True

    def _in_set_term(self, x, codes):
        if isinstance(x, builtins.int):
            return x in codes
        return SymBool(z3.Or([x == k for k in codes]))

    # ---- strip family
    def _strip_codes(self, chars):
        if chars is None:
            return STR_WS
        if isinstance(chars, SymStr):
            if any(not isinstance(x, builtins.int) for x in chars.c):
                raise Unsupported("strip with symbolic character set")
            return tuple(chars.c)
        return tuple(ord(x) for x in chars)

    def lstrip(self, chars=None):
        codes = self._strip_codes(chars)
        i = 0
        while i < len(self.c) and self._in_set_term(self.c[i], codes):
            i += 1
        return mk_str(self.c[i:])

    def rstrip(self, chars=None):
        codes = self._strip_codes(chars)
        j = len(self.c)
        while j > 0 and self._in_set_term(self.c[j - 1], codes):
            j -= 1
        return mk_str(self.c[:j])

    def strip(self, chars=None):
        return self.lstrip(chars).rstrip(chars)

    # ---- split / replace / find
    def _match_at(self, i, sepc):
        return SymStr(self.c[i:i + len(sepc)])._eq_term(SymStr(sepc))

    def split(self, sep=None, maxsplit=-1):
        if sep is None:
            return self._split_ws(maxsplit)
        if isinstance(sep, SymStr):
            if any(not isinstance(x, builtins.int) for x in sep.c):
                raise Unsupported("split with symbolic separator")
            sepc = list(sep.c)
        else:
            sepc = [ord(x) for x in sep]
        if not sepc:
            raise ValueError("empty separator")
        out, cur, i, n = [], 0, 0, len(self.c)
        while i + len(sepc) <= n and (maxsplit < 0 or len(out) < maxsplit):
            if self._match_at(i, sepc):
                out.append(mk_str(self.c[cur:i]))
                i += len(sepc)
                cur = i
            else:
                i += 1
        out.append(mk_str(self.c[cur:]))
        return out

    def _split_ws(self, maxsplit):
        out, cur, i, n = [], None, 0, len(self.c)
        while i < n:
            if self._in_set_term(self.c[i], STR_WS):
                if cur is not None:
                    out.append(mk_str(self.c[cur:i]))
                    cur = None
            else:
                if cur is None:
                    if maxsplit >= 0 and len(out) >= maxsplit:
                        out.append(mk_str(self.c[i:]).rstrip())
                        return out
                    cur = i
            i += 1
        if cur is not None:
            out.append(mk_str(self.c[cur:]))
        return out

    def replace(self, old, new, count=-1):
        if count != -1:
            raise Unsupported("replace with count")
        oldc = [ord(x) for x in old] if isinstance(old, str) else list(old.c)
        newc = [ord(x) for x in new] if isinstance(new, str) else list(new.c)
        if not oldc:
            raise Unsupported("replace of empty string")
        out, i, n = [], 0, len(self.c)
        while i < n:
            if i + len(oldc) <= n and self._match_at(i, oldc):
                out.extend(newc)
                i += len(oldc)
            else:
                out.append(self.c[i])
                i += 1
        return mk_str(out)

    def find(self, sub, *a):
        if a:
            raise Unsupported("find with offsets")
        subc = [ord(x) for x in sub] if isinstance(sub, str) else list(sub.c)
        for i in range(len(self.c) - len(subc) + 1):
            if self._match_at(i, subc):
                return i
        return -1

    def count(self, sub, *a):
        if a:
            raise Unsupported("count with offsets")
        subc = [ord(x) for x in sub] if isinstance(sub, str) else list(sub.c)
        if not subc:
            return len(self.c) + 1
        n, i = 0, 0
        while i + len(subc) <= len(self.c):
            if self._match_at(i, subc):
                n += 1
                i += len(subc)
            else:
                i += 1
        return n

    def index(self, sub, *a):
        r = self.find(sub, *a)
        if r < 0:
            raise ValueError("substring not found")
        return r

    def partition(self, sep):
        i = self.find(sep)
        if i < 0:
            return self, "", ""
        return mk_str(self.c[:i]), sep, mk_str(self.c[i + len(sep):])

    def join(self, parts):
        return join_shim(self, parts)

    def encode(self, encoding="utf-8", errors="strict"):
        if encoding.lower().replace("_", "-") not in ("utf-8", "utf8", "latin-1", "ascii", "iso-8859-1"):
            raise Unsupported("encode " + encoding)
        return core.mk_bytes(self.c)

    def isdigit(self):
        if not self.c:
            return False
        return bool(core.And([self._in_set_term(x, tuple(range(48, 58))) for x in self.c]))

    def __mod__(self, o):
        raise Unsupported("%-formatting with a symbolic format string")

    def __rmod__(self, o):
        return o % ("<symstr>",)


def contains(s, sub):
    """mode-agnostic `sub in s` as a term (SymBool) or bool"""
    if isinstance(s, SymStr):
        return s.contains_term(sub)
    return sub in s


def in_shim(item, container):
    """`item in container` when a concrete str/bytes container meets a proxy item (a C-level __contains__ cannot take it)"""
    if isinstance(container, str) and isinstance(item, SymStr):
        return bool(SymStr([ord(c) for c in container]).contains_term(item)) if container.isascii() else core.unsupported("non-ASCII container")
    if isinstance(container, (bytes, bytearray)) and isinstance(item, core.SymInt):
        return bool(core.Or([item == b for b in container])) if len(container) else False
    if isinstance(container, (bytes, bytearray)) and isinstance(item, SymBytes):
        raise Unsupported("symbolic bytes in concrete bytes")
    if type(container) in (set, frozenset, dict) and isinstance(item, (core.SymInt, SymStr)):
        # a hash lookup would have to enumerate the item's values: membership is the disjunction of equalities instead
        same = (builtins.int,) if isinstance(item, core.SymInt) else (str,)
        terms = [item == k for k in container if isinstance(k, same) and not isinstance(k, builtins.bool)]
        return bool(core.Or(terms)) if terms else False
    return item in container


def method_shim(recv, name, *args):
    if isinstance(recv, str) and any(isinstance(a, SymStr) for a in args):
        if not recv.isascii():
            raise Unsupported("non-ASCII receiver with symbolic argument")
        recv = SymStr([ord(c) for c in recv])
    elif isinstance(recv, (bytes, bytearray)) and any(isinstance(a, SymBytes) for a in args):
        recv = SymBytes(list(recv), type(recv))
    if name == "join" and isinstance(recv, (str, bytes, bytearray)) and len(args) == 1:
        return join_shim(recv, args[0])
    if name == "get" and type(recv) is dict and 1 <= len(args) <= 2 and type(args[0]) is core.SymInt:
        from . import shims
        return shims.dict_get(recv, *args)
    return getattr(recv, name)(*args)


def mk_str(chars):
    s = SymStr(chars)
    if all(isinstance(x, builtins.int) for x in s.c):
        return "".join(chr(x) for x in s.c)
    return s


def sym_str(name, n):
    """n symbolic ASCII characters"""
    if core.MODE == "concrete":
        return "".join(chr(core._conc_get("%s_%d" % (name, i))) for i in range(n))
    ctx = core.CTX
    ctx.kinds[name] = ("str", n)
    cs = []
    for i in range(n):
        v = ctx.fresh("%s_%d" % (name, i), 8)
        ctx.solver.add(z3.ULT(v, 128))
        cs.append(v)
    return SymStr(cs)  # also for n == 0: a plain "" could not dispatch str methods to proxy arguments


class SymText:
    """Opaque result of decoding *valid, non-ASCII* UTF-8: remembers the bytes (decoding is
    injective on valid input, so equality of texts is equality of the byte strings)."""

    __slots__ = ("raw",)

    def __init__(self, raw):
        self.raw = raw

    def encode(self, encoding="utf-8", errors="strict"):
        if encoding.lower() not in ("utf-8", "utf8"):
            raise Unsupported("SymText.encode " + encoding)
        return self.raw

    def __eq__(self, o):
        if isinstance(o, SymText):
            return self.raw == o.raw
        if isinstance(o, str):
            return self.raw == o.encode("utf-8")
        if isinstance(o, SymStr):
            return self.raw == o.encode()
        return False

    def __ne__(self, o):
        return core.Not(self.__eq__(o))

    def __hash__(self):
        raise Unsupported("hash of symbolic text")

    def __bool__(self):
        return len(self.raw) > 0

    def __repr__(self):
        return "<symtext %d bytes>" % len(self.raw)

    __str__ = __repr__

    def __format__(self, spec):
        return repr(self)

    def __len__(self):
        raise core.OutOfBound("len of symbolic non-ASCII text")

    def __getattr__(self, name):
        raise core.OutOfBound("str.%s on valid non-ASCII text (outside the ASCII bound of the string model)" % name)


def decode_bytes(b, encoding="utf-8", errors="strict"):
    enc = encoding.lower().replace("_", "-")
    if errors != "strict":
        raise Unsupported("decode errors=" + errors)
    terms = [_bv8(x) for x in b.b]
    if enc in ("latin-1", "iso-8859-1"):
        ascii_ = z3.And([z3.ULT(t, 128) for t in terms])
        if core.CTX.branch(ascii_):
            return mk_str(b.b)
        raise Unsupported("latin-1 decode of non-ASCII symbolic bytes")
    if enc not in ("utf-8", "utf8", "ascii"):
        raise Unsupported("decode " + encoding)
    ascii_ = z3.And([z3.ULT(t, 128) for t in terms])
    if core.CTX.branch(ascii_):
        return mk_str(b.b)
    if enc == "ascii":
        raise UnicodeDecodeError("ascii", b"?", 0, 1, "ordinal not in range(128)")
    if core.CTX.branch(utf8ref.valid_term(terms)):
        return SymText(b)
    raise UnicodeDecodeError("utf-8", b"?", 0, 1, "invalid start byte (symbolic)")


def text_of(b):
    """harness helper: the text a valid UTF-8 byte string decodes to (for comparing results)"""
    if isinstance(b, (bytes, bytearray)):
        return bytes(b).decode("utf-8")
    return SymText(b)


def join_shim(sep, parts):
    parts = list(parts)
    if isinstance(sep, (bytes, bytearray, SymBytes)):
        if not any(isinstance(p, SymBytes) for p in parts) and not isinstance(sep, SymBytes):
            return sep.join(parts)
        out = []
        for k, p in enumerate(parts):
            if k:
                out += core.as_byte_list(sep)
            if not isinstance(p, (bytes, bytearray, SymBytes)):
                raise TypeError("sequence item %d: expected a bytes-like object" % k)
            out += core.as_byte_list(p)
        return core.mk_bytes(out)
    if not any(isinstance(p, SymStr) for p in parts) and not isinstance(sep, SymStr):
        if any(isinstance(p, SymText) for p in parts):
            raise Unsupported("join with symbolic non-ASCII text")
        return sep.join(parts)
    sc = list(sep.c) if isinstance(sep, SymStr) else [ord(x) for x in sep]
    out = []
    for k, p in enumerate(parts):
        if k:
            out += sc
        if isinstance(p, SymStr):
            out += p.c
        elif isinstance(p, str):
            if not p.isascii():
                raise Unsupported("join of symbolic and non-ASCII text")
            out += [ord(x) for x in p]
        else:
            raise TypeError("sequence item %d: expected str instance" % k)
    return mk_str(out)


def fmt_shim(*parts):
    """f-string replacement: parts are str literals or (value, conversion, spec) tuples"""
    pieces = []
    symbolic = False
    for p in parts:
        if isinstance(p, tuple):
            v, conv, spec = p
            if isinstance(v, SymStr) and conv == -1 and not spec:
                pieces.append(v)
                symbolic = True
                continue
            if conv == ord("r"):
                v = repr(v)
            elif conv == ord("s"):
                v = str(v)
            elif conv == ord("a"):
                v = ascii(v)
            pieces.append(format(v, spec) if spec or not isinstance(v, str) else v)
        else:
            pieces.append(p)
    if not symbolic:
        return "".join(pieces)
    if any(isinstance(p, str) and not p.isascii() for p in pieces):
        raise Unsupported("f-string mixing symbolic and non-ASCII text")
    return join_shim("", pieces)


def parse_int(s):
    """int(str) for an ASCII SymStr (base 10): optional surrounding whitespace, optional sign,
    digits with single underscores between them."""
    s = s.strip()
    if isinstance(s, str):
        return builtins.int(s)
    if len(s) == 0:
        raise ValueError("invalid literal for int() with base 10: ''")
    neg = False
    first = s.c[0]
    if bool(s._in_set_term(first, (43, 45))):
        neg = bool(s._in_set_term(first, (45,)))
        s = mk_str(s.c[1:])
        if isinstance(s, str):
            return builtins.int(("-" if neg else "") + s) if s else _bad()
        if len(s) == 0:
            _bad()
    digits = []
    prev_us = True  # underscore not allowed first
    for k, x in enumerate(s.c):
        if bool(s._in_set_term(x, tuple(range(48, 58)))):
            digits.append(x)
            prev_us = False
        elif bool(s._in_set_term(x, (95,))):
            if prev_us or k == len(s.c) - 1:
                _bad()
            prev_us = True
        else:
            _bad()
    val = 0
    for x in digits:
        d = x - 48 if isinstance(x, builtins.int) else SymInt(z3.Extract(3, 0, x - 48), 4, False)
        val = val * 10 + d
    return -val if neg else val


def _bad():
    raise ValueError("invalid literal for int() with base 10: <symstr>")
