"""Path exploration (depth-first by re-execution) and the parallel driver."""
import concurrent.futures as cf
import importlib
import multiprocessing as mp
import os
import sys
import time
import traceback

from . import core, loader


class Obligation:
    def __init__(self, name, fn, scenarios=None, required=True, bounds="", outside=(), budget_s=1800,
                 step_budget=20000, solver_timeout_ms=30000, must_cover=(), kind="decide",
                 kernel=(), assumptions=(), chunk_s=4.0, max_paths=None):
        self.name = name
        self.fn = fn
        self.scenarios = list(scenarios) if scenarios is not None else [{}]
        self.required = required
        self.bounds = bounds
        self.outside = list(outside)
        self.budget_s = budget_s
        self.step_budget = step_budget
        self.solver_timeout_ms = solver_timeout_ms
        self.must_cover = list(must_cover)
        self.kind = kind
        self.kernel = list(kernel)
        self.assumptions = list(assumptions)
        self.chunk_s = chunk_s
        self.max_paths = max_paths


COVER = None  # set of coverage labels hit on the current path


def cover(label):
    if core.MODE == "concrete":
        return
    COVER.add(label)


_REPO_FUNCS = None


def _profile(frame, event, arg):
    if event == "call":
        co = frame.f_code
        fn = co.co_filename
        if "/websocket/" in fn and "/tests/" not in fn:
            _REPO_FUNCS.add("%s:%s" % (fn.rsplit("/", 1)[-1], getattr(co, "co_qualname", co.co_name)))


class PathTimeout(core.Control):
    """wall-clock watchdog of one path (a hang must never hang the check)"""


def _alarm(signum, frame):
    raise PathTimeout("path exceeded its wall-clock limit")


PATH_WALL_S = int(os.environ.get("VERIF_PATH_WALL_S", "300"))


def run_path(fn, params, prefix, step_budget, solver_timeout_ms, profile=False):
    """Execute the harness once along `prefix`.  Returns (status, ctx, cover, message)."""
    global COVER, _REPO_FUNCS
    ctx = core.Ctx(prefix, solver_timeout_ms=solver_timeout_ms, step_budget=step_budget)
    core.CTX = ctx
    COVER = set()
    status, msg = "ok", ""
    if core.MODE != "concrete":
        loader.restore_globals()
    if profile:
        _REPO_FUNCS = set()
        sys.setprofile(_profile)
    import signal
    import threading as _t
    use_alarm = _t.current_thread() is _t.main_thread()
    if use_alarm:
        signal.signal(signal.SIGALRM, _alarm)
        signal.alarm(PATH_WALL_S)
    try:
        fn(**params)
    except PathTimeout as e:
        status, msg = "unwound", "wall-clock watchdog: %s" % e
    except core.Stop:
        status = "ok"
    except core.UnitMissing as e:
        status, msg = "skipped", "private entry point not present in this tree: %s" % e
    except core.OutOfBound as e:
        status, msg = "abort", "outside-bound: " + str(e)
    except core.PathAbort as e:
        status, msg = "abort", str(e)
    except core.Unwound as e:
        status, msg = "unwound", str(e)
    except core.Unsupported as e:
        status, msg = "unsupported", str(e)
    except core.Control as e:
        status, msg = "error", "stray control exception %r" % (e,)
    except RecursionError as e:
        status, msg = "unsupported", "recursion limit: %s" % e
    except Exception as e:  # harness bug or an exception the harness did not expect
        status = "error"
        msg = "".join(traceback.format_exception(type(e), e, e.__traceback__)[-6:])
    finally:
        if use_alarm:
            signal.alarm(0)
        if profile:
            sys.setprofile(None)
    if status == "ok" and ctx.flag in ("unsupported", "unknown", "unwound"):
        # a control exception was raised and swallowed somewhere: never count the path as passed
        status, msg = ("unwound" if ctx.flag == "unwound" else "unsupported"), "control exception swallowed (%s)" % ctx.flag
    if ctx.pos < len(ctx.prefix) and status == "ok":
        status, msg = "error", "non-deterministic harness: prefix not consumed (%d of %d)" % (ctx.pos, len(ctx.prefix))
    return status, ctx, COVER, msg


def explore_chunk(modname, obname, scen_idx, prefixes, tier, chunk_s, max_paths, want_split=1):
    """Worker: explore the subtrees under `prefixes` for at most chunk_s seconds; return stats and
    the prefixes that remain."""
    mod = importlib.import_module(modname)
    ob = [o for o in mod.obligations(tier) if o.name == obname][0]
    params = ob.scenarios[scen_idx]
    t0 = time.time()
    work = list(prefixes)
    st = dict(paths=0, ok=0, abort=0, unsupported=0, unwound=0, error=0, skipped=0, queries=0, solver_s=0.0,
              requires=0, discharged=0, trivial=0, nontrivial_paths=0, violations=[], msgs={},
              cover={}, samples=[], funcs=[], forks={}, max_depth=0)
    first = True
    expand = 0
    while work:
        if len(st["violations"]) >= 200:
            break  # plenty of counterexamples from this chunk; let the master decide whether to go on
        if st["paths"] and (time.time() - t0 > chunk_s or (max_paths and st["paths"] >= max_paths)):
            # before handing the rest back, widen a too-narrow frontier breadth-first so that the
            # master has subtrees to distribute
            if len(work) >= want_split or expand >= 3 * want_split:
                break
            expand += 1
            prefix = work.pop(0)
        else:
            prefix = work.pop()
        profile = first and not prefix
        first = False
        status, ctx, cov, msg = run_path(ob.fn, params, prefix, ob.step_budget, ob.solver_timeout_ms, profile)
        if profile:
            st["funcs"] = sorted(_REPO_FUNCS)
        st["paths"] += 1
        st[status] += 1
        st["queries"] += ctx.nq
        st["solver_s"] += ctx.tq
        st["requires"] += ctx.requires
        st["discharged"] += ctx.discharged
        st["trivial"] += ctx.trivial_requires
        st["max_depth"] = max(st["max_depth"], len(ctx.prefix))
        for k, v in ctx.fork_sites.items():
            st["forks"][k] = st["forks"].get(k, 0) + v
        if status == "ok" and (ctx.requires or ctx.trivial_requires):
            st["nontrivial_paths"] += 1
            for c in cov:
                st["cover"][c] = st["cover"].get(c, 0) + 1
            if len(st["samples"]) < 2:
                m = ctx.get_model()
                if m is not None:
                    mv = ctx.model_values(m)
                    st["samples"].append({"scenario": _short(params), "decisions": len(ctx.prefix),
                                          "assertions_discharged_on_path": ctx.discharged + ctx.trivial_requires,
                                          "covered": sorted(cov),
                                          "witness_input": dict(list(mv.items())[:24])})
        if status == "abort" and msg.startswith("outside-bound"):
            st["msgs"][msg[:200]] = st["msgs"].get(msg[:200], 0) + 1
        if status in ("unsupported", "unwound", "error", "skipped"):
            k = "%s: %s" % (status, msg.strip().splitlines()[-1][:300] if msg.strip() else "")
            st["msgs"][k] = st["msgs"].get(k, 0) + 1
            if status == "error" and len(st["msgs"]) < 3:
                st["msgs"]["trace: " + msg[-1500:]] = 1
        for v in ctx.violations:
            v = dict(v)
            v["obligation"] = obname
            v["scenario"] = scen_idx
            v["params"] = params
            st["violations"].append(v)
        work.extend(ctx.pending)
        if expand:
            continue
    st["leftover"] = work
    st["sources"] = dict(loader.SOURCES)
    return st


def _short(params):
    return {k: (v if isinstance(v, (int, str, bool, float, type(None))) else repr(v)[:60]) for k, v in params.items()}


def _init_worker(mode, root):
    core.MODE = mode
    sys.setrecursionlimit(10000)
    loader.activate(root)


def run_obligations(modname, tier, workers=None, only=None, log=print, is_known=None):
    """Master: run every obligation of a harness module.  Returns a list of per-obligation
    result dicts."""
    workers = workers or int(os.environ.get("VERIF_WORKERS", os.cpu_count() or 4))
    mod = importlib.import_module(modname)
    obs = [o for o in mod.obligations(tier) if only is None or o.name in only]
    results = []
    ctx = mp.get_context("fork")
    with cf.ProcessPoolExecutor(max_workers=workers, mp_context=ctx, initializer=_init_worker,
                                initargs=("sym", loader.REPO)) as ex:
        # all obligations share the pool; budgets are per obligation (wall time since its first task)
        state = {}
        futs = {}
        for ob in obs:
            state[ob.name] = dict(ob=ob, t0=time.time(), agg=None, inflight=0, timed_out=False, queue=[])
            for i in range(len(ob.scenarios)):
                state[ob.name]["queue"].append((i, [[]]))

        def submit_some():
            # round-robin over obligations so that all make progress
            progressed = True
            while len(futs) < workers * 2 and progressed:
                progressed = False
                for name, s in state.items():
                    if len(futs) >= workers * 2:
                        break
                    if s["queue"] and not s["timed_out"]:
                        i, prefixes = s["queue"].pop(0)
                        ob = s["ob"]
                        queued = sum(len(x["queue"]) for x in state.values())
                        starving = queued + len(futs) < workers
                        f = ex.submit(explore_chunk, modname, name, i, prefixes, tier,
                                      min(ob.chunk_s, 0.7) if starving else ob.chunk_s, ob.max_paths,
                                      workers if starving else 2)
                        futs[f] = (name, i)
                        s["inflight"] += 1
                        progressed = True

        submit_some()
        while futs:
            done, _ = cf.wait(list(futs), timeout=1.0, return_when=cf.FIRST_COMPLETED)
            now = time.time()
            for f in done:
                name, i = futs.pop(f)
                s = state[name]
                s["inflight"] -= 1
                try:
                    st = f.result()
                except Exception as e:
                    st = dict(paths=0, ok=0, abort=0, unsupported=0, unwound=0, error=1, skipped=0, queries=0, solver_s=0.0,
                              requires=0, discharged=0, trivial=0, nontrivial_paths=0, violations=[],
                              msgs={"worker crashed: %r" % (e,): 1}, cover={}, samples=[], funcs=[], forks={},
                              max_depth=0, leftover=[], sources={})
                _merge(s, st, i)
                left = st["leftover"]
                s["unknown_viol"] = s.get("unknown_viol", 0) + sum(1 for v in st["violations"] if not (is_known and is_known(v)))
                if s["unknown_viol"] >= 40 and not s.get("stopped"):
                    # verdict is already 'violated'; do not keep exploring a broken tree
                    s["stopped"] = True
                    s["queue"] = []
                if s.get("stopped"):
                    left = []
                if left:
                    # split the remaining prefixes into several tasks (shallow ones first = big subtrees)
                    k = max(1, min(len(left), workers))
                    for j in range(k):
                        part = left[j::k]
                        if part:
                            s["queue"].append((i, part))
            for name, s in state.items():
                if not s["timed_out"] and now - s["t0"] > s["ob"].budget_s and (s["queue"] or s["inflight"]):
                    s["timed_out"] = True
                    s["queue"] = []
            submit_some()
        for ob in obs:
            s = state[ob.name]
            results.append(_finish(s))
    return results


def _merge(s, st, scen_idx):
    a = s["agg"]
    if a is None:
        a = s["agg"] = dict(paths=0, ok=0, abort=0, unsupported=0, unwound=0, error=0, skipped=0, queries=0, solver_s=0.0,
                            requires=0, discharged=0, trivial=0, nontrivial_paths=0, violations=[], msgs={},
                            cover={}, samples=[], funcs=set(), forks={}, max_depth=0, sources={},
                            scen_nontrivial={})
    a["skipped"] += st.get("skipped", 0)
    for k in ("paths", "ok", "abort", "unsupported", "unwound", "error", "queries", "solver_s", "requires",
              "discharged", "trivial", "nontrivial_paths"):
        a[k] += st[k]
    a["max_depth"] = max(a["max_depth"], st["max_depth"])
    for k, v in st["msgs"].items():
        a["msgs"][k] = a["msgs"].get(k, 0) + v
    for k, v in st["cover"].items():
        a["cover"][k] = a["cover"].get(k, 0) + v
    for k, v in st["forks"].items():
        a["forks"][k] = a["forks"].get(k, 0) + v
    if len(a["samples"]) < 3:
        a["samples"].extend(st["samples"][: 3 - len(a["samples"])])
    a["funcs"].update(st["funcs"])
    a["sources"].update(st["sources"])
    a["violations"].extend(st["violations"])
    a["scen_nontrivial"][scen_idx] = a["scen_nontrivial"].get(scen_idx, 0) + st["nontrivial_paths"]


def _finish(s):
    ob = s["ob"]
    a = s["agg"] or dict(paths=0, ok=0, abort=0, unsupported=0, unwound=0, error=0, skipped=0, queries=0, solver_s=0.0,
                         requires=0, discharged=0, trivial=0, nontrivial_paths=0, violations=[], msgs={},
                         cover={}, samples=[], funcs=set(), forks={}, max_depth=0, sources={}, scen_nontrivial={})
    reasons = []
    if s.get("stopped"):
        reasons.append("exploration stopped early after 40 counterexamples")
    if s["timed_out"]:
        reasons.append("budget of %ds exhausted before the path tree was exhausted" % ob.budget_s)
    if a["unsupported"]:
        reasons.append("%d path(s) unsupported by the encoding" % a["unsupported"])
    if a["unwound"]:
        reasons.append("%d path(s) hit the step budget (unwinding assertion)" % a["unwound"])
    if a["error"]:
        reasons.append("%d path(s) ended in a harness error" % a["error"])
    vac = [i for i in range(len(ob.scenarios)) if not a["scen_nontrivial"].get(i)]
    if vac and not s["timed_out"] and not s.get("stopped"):
        reasons.append("vacuous: scenario(s) %s reached no assertion on any feasible path" % vac[:8])
    missing = [c for c in ob.must_cover if not a["cover"].get(c)]
    if missing:
        reasons.append("vacuity witness missing for: %s" % ", ".join(missing))
    if a["violations"]:
        verdict = "violated"
    elif a.get("skipped") and not (a["unsupported"] or a["unwound"] or a["error"] or s["timed_out"]):
        # the unit this obligation drives does not exist (under a known name) in this tree
        verdict = "not-applicable"
        reasons = [k for k in a["msgs"] if k.startswith("skipped")][:2]
    elif reasons:
        verdict = "inconclusive"
    else:
        verdict = "discharged"
    return dict(name=ob.name, required=ob.required, kind=ob.kind, verdict=verdict, reasons=reasons,
                bounds=ob.bounds, outside=ob.outside, kernel=ob.kernel, assumptions=ob.assumptions,
                scenarios=len(ob.scenarios), wall_s=round(time.time() - s["t0"], 2),
                paths=a["paths"], paths_ok=a["ok"], paths_infeasible=a["abort"], unsupported=a["unsupported"],
                unwound=a["unwound"], errors=a["error"], solver_queries=a["queries"],
                solver_s=round(a["solver_s"], 2), assertions_checked=a["requires"],
                assertions_discharged=a["discharged"], assertions_trivially_true=a["trivial"],
                nontrivial_paths=a["nontrivial_paths"], max_decisions=a["max_depth"],
                messages=dict(sorted(a["msgs"].items(), key=lambda kv: -kv[1])[:8]),
                covered=a["cover"], samples=a["samples"], functions=sorted(a["funcs"]),
                top_fork_sites=dict(sorted(a["forks"].items(), key=lambda kv: -kv[1])[:6]),
                sources=a["sources"], violations=a["violations"])
