"""bvsym core: solver context, symbolic proxy values (exact-width bit-vectors, byte strings,
reals), and the assertion primitives.  See DESIGN.md section 1.

A harness is an ordinary Python function.  In *symbolic* mode the values handed out by
sym_bytes/sym_int/... are proxies wrapping z3 terms and the repo code runs on them; every
truth test of a symbolic condition is a branch decided by the solver, and ``require(c)`` asks
the solver for a value that makes ``c`` false on the current path.  In *concrete* mode (replay)
the same harness runs on plain Python values taken from a solver model, on the unmodified
package, and ``require`` is an ordinary assertion.
"""
import builtins
import os
import struct as _struct
import sys
import time
from fractions import Fraction

try:
    import z3
except ImportError:  # concrete (replay) mode needs no solver
    z3 = None

MODE = "sym"  # or "concrete"


# ----------------------------------------------------------------------------- control flow
NEVER_SWALLOW = []  # further BaseException classes (the virtual-time kernel's) that the library's catch-alls must let through


class Control(BaseException):
    """Base of the engine's control exceptions (BaseException so that the library's
    ``except Exception`` cannot swallow them; bare ``except:`` is handled by the loader)."""


class NonDeterminism(Control):
    """the harness took a different symbolic branch on re-execution (engine soundness rule 3)"""


class PathAbort(Control):
    """Current path is infeasible / excluded by an assumption."""


class OutOfBound(PathAbort):
    """The path leaves a stated bound of the encoding (e.g. non-ASCII text in the ASCII string model): it is cut,
    counted and reported as outside the claim — neither a pass nor an inconclusive result."""


class Unsupported(Control):
    """The path needs something the encoding does not model: inconclusive, never 'passed'."""


class Unwound(Control):
    """Step budget of the path exhausted (unwinding assertion)."""


class Stop(Control):
    """Harness asked to end the path early (normal)."""


class UnitMissing(Control):
    """A unit-level obligation addresses a PRIVATE entry point (function, attribute) that this tree does not have under any
    of the names the harness knows: the obligation does not apply to this tree (it is reported as such, never as passed and
    never as a violation); the property's obligations through the public API still decide."""


def unit(owner, *names):
    """first attribute of `owner` (module or object) that exists among `names`"""
    for n in names:
        if hasattr(owner, n):
            return getattr(owner, n)
    raise UnitMissing("%s.%s" % (getattr(owner, "__name__", type(owner).__name__), names[0]))


class ReplayMismatch(BaseException):
    """(BaseException so that the library's `except Exception` cannot swallow it during a replay)"""


def bitlen(c):
    return max(1, c.bit_length())


_DUMP_DIR = os.environ.get("VERIF_DUMP_SMT") or None
_DUMP_MAX = int(os.environ.get("VERIF_DUMP_MAX", "400"))
_DUMP_N = 0


class Ctx:
    def __init__(self, prefix=(), solver_timeout_ms=30000, step_budget=20000):
        self.solver = z3.Solver()
        self.solver.set("timeout", solver_timeout_ms)
        self.prefix = list(prefix)
        self.pos = 0
        self.pending = []
        self.nq = 0
        self.tq = 0.0
        self.inputs = {}  # name -> z3 term (BitVec / Real / Bool)
        self.kinds = {}  # name -> ("bytes", n) / ("int", w) / ("real",) / ("choice", n)
        self.model = None  # a model known to satisfy the current path condition (or None)
        self.violations = []
        self.requires = 0  # require() calls that needed the solver
        self.discharged = 0
        self.trivial_requires = 0
        self.steps = 0
        self.step_budget = step_budget
        self.flag = None  # set when a control exception was raised (sticky)
        self.notes = []
        self.pc_size = 0
        self.fork_sites = {}

    # -- solver
    def check(self, *extra):
        t = time.time()
        r = str(self.solver.check(*extra))
        self.tq += time.time() - t
        self.nq += 1
        if _DUMP_DIR and r in ("unsat", "sat"):
            self._dump(extra, r)
        return r

    def _dump(self, extra, verdict):
        """VERIF_DUMP_SMT=<dir>: every decided query (path condition + the extra literal) is written as SMT-LIB2 with z3's verdict
        in its first line, so that selftest/crosssolver.py can put the same query to cvc5 (at most VERIF_DUMP_MAX files per process,
        one per distinct text)."""
        global _DUMP_N
        if _DUMP_N >= _DUMP_MAX:
            return
        try:
            s2 = z3.Solver()
            s2.add(*self.solver.assertions())
            s2.add(*extra)
            txt = s2.to_smt2()
            import hashlib
            h = hashlib.sha1(txt.encode()).hexdigest()[:16]
            path = os.path.join(_DUMP_DIR, "%s_%s.smt2" % (verdict, h))
            if not os.path.exists(path):
                with open(path + ".tmp%d" % os.getpid(), "w") as f:
                    f.write("; z3=%s\n" % verdict)
                    f.write(txt)
                os.replace(path + ".tmp%d" % os.getpid(), path)
                _DUMP_N += 1
        except Exception:
            pass

    def add(self, term):
        self.solver.add(term)
        self.pc_size += 1
        if self.model is not None:
            try:
                if not z3.is_true(self.model.eval(term, model_completion=True)):
                    self.model = None
            except z3.Z3Exception:
                self.model = None

    def tick(self, n=1):
        self.steps += n
        if self.steps > self.step_budget:
            self.flag = "unwound"
            raise Unwound("step budget %d exhausted" % self.step_budget)

    def fresh(self, name, sort_width=None, real=False, kind=None):
        if name in self.inputs:
            raise RuntimeError("duplicate symbolic input " + name)
        v = z3.Real(name) if real else z3.BitVec(name, sort_width)
        self.inputs[name] = v
        if kind:
            self.kinds[name] = kind
        return v

    def _site(self):
        f = sys._getframe(1)
        here = __file__.rsplit("/", 1)[0]
        while f is not None and f.f_code.co_filename.startswith(here):
            f = f.f_back
        if f is None:
            return "?"
        return "%s:%d" % (f.f_code.co_filename.rsplit("/", 1)[-1], f.f_lineno)

    def branch(self, cond, tag=None):
        """Decide a symbolic condition; forks when both outcomes are feasible.  A decision is recorded
        as (outcome, tag, hash-of-condition); `tag` carries the concrete value chosen by value
        enumerations (__index__) so that re-execution rebuilds exactly the same condition."""
        cond = z3.simplify(cond)
        if z3.is_true(cond):
            return True
        if z3.is_false(cond):
            return False
        self.tick()
        h = self._site()  # determinism witness: the code location deciding (term hashes are not stable under simplify)
        if self.pos < len(self.prefix):
            d, _tag, h0 = self.prefix[self.pos]
            if h0 is not None and h0 != h:
                self.flag = "error"
                raise NonDeterminism("branch %d decided at %s on re-execution, at %s originally" % (self.pos, h, h0))
            self.pos += 1
            self.add(cond if d else z3.Not(cond))
            return d
        known = None
        if self.model is not None:
            try:
                known = z3.is_true(self.model.eval(cond, model_completion=True))
            except z3.Z3Exception:
                known = None
        if known is None:
            r = self.check(cond)
            if r == "unknown":
                self.flag = "unknown"
                raise Unsupported("solver unknown at branch")
            can_t = r == "sat"
            mt = self.solver.model() if can_t else None
            r = self.check(z3.Not(cond))
            if r == "unknown":
                self.flag = "unknown"
                raise Unsupported("solver unknown at branch")
            can_f = r == "sat"
            mf = self.solver.model() if can_f else None
        elif known:
            can_t, mt = True, self.model
            r = self.check(z3.Not(cond))
            if r == "unknown":
                self.flag = "unknown"
                raise Unsupported("solver unknown at branch")
            can_f = r == "sat"
            mf = self.solver.model() if can_f else None
        else:
            can_f, mf = True, self.model
            r = self.check(cond)
            if r == "unknown":
                self.flag = "unknown"
                raise Unsupported("solver unknown at branch")
            can_t = r == "sat"
            mt = self.solver.model() if can_t else None
        if can_t and can_f:
            self.pending.append(self.prefix[: self.pos] + [(False, tag, h)])
            d = True
            self.fork_sites[h] = self.fork_sites.get(h, 0) + 1
        elif can_t:
            d = True
        elif can_f:
            d = False
        else:
            self.flag = "infeasible"
            raise PathAbort("infeasible")
        self.prefix = self.prefix[: self.pos] + [(d, tag, h)]
        self.pos += 1
        self.solver.add(cond if d else z3.Not(cond))
        self.pc_size += 1
        self.model = mt if d else mf
        return d

    def replay_tag(self):
        """tag recorded for the next decision when re-executing a prefix (else None)"""
        if self.pos < len(self.prefix):
            return self.prefix[self.pos][1]
        return None

    def get_model(self):
        if self.model is None:
            r = self.check()
            if r != "sat":
                return None
            self.model = self.solver.model()
        return self.model

    def model_values(self, m):
        out = {}
        for k, v in self.inputs.items():
            val = m.eval(v, model_completion=True)
            if z3.is_bv_value(val):
                out[k] = val.as_long()
            elif z3.is_int_value(val):
                out[k] = val.as_long()
            elif z3.is_rational_value(val):
                out[k] = "%d/%d" % (val.numerator_as_long(), val.denominator_as_long())
            elif z3.is_algebraic_value(val):
                a = val.approx(20)
                out[k] = "%d/%d" % (a.numerator_as_long(), a.denominator_as_long())
            else:
                out[k] = str(val)
        return out


CTX = None  # current symbolic context
CONC = None  # current concrete model (dict) in replay mode


class ConcreteFailure(BaseException):
    """require() failed in concrete (replay) mode (BaseException: must not be swallowed by the code under test)."""


# ----------------------------------------------------------------------------- booleans
class SymBool:
    __slots__ = ("t",)

    def __init__(self, t):
        self.t = t

    def __bool__(self):
        return CTX.branch(self.t)

    def __repr__(self):
        return "<symbool>"

    def __and__(self, o):
        return And(self, o)

    __rand__ = __and__

    def __or__(self, o):
        return Or(self, o)

    __ror__ = __or__

    def __invert__(self):
        return Not(self)

    def __eq__(self, o):
        return Iff(self, o)

    def __ne__(self, o):
        return Not(Iff(self, o))

    def __hash__(self):
        return hash(bool(self))


def _bt(x):
    if isinstance(x, SymBool):
        return x.t
    if isinstance(x, SymInt):
        return x.t != 0
    return z3.BoolVal(bool(x))


def _is_sym(x):
    return isinstance(x, (SymBool, SymInt, SymReal))


def And(*xs):
    if len(xs) == 1 and isinstance(xs[0], (list, tuple)):
        xs = tuple(xs[0])
    if not any(_is_sym(x) for x in xs):
        return all(bool(x) for x in xs)
    return SymBool(z3.And([_bt(x) for x in xs]))


def Or(*xs):
    if len(xs) == 1 and isinstance(xs[0], (list, tuple)):
        xs = tuple(xs[0])
    if not any(_is_sym(x) for x in xs):
        return any(bool(x) for x in xs)
    return SymBool(z3.Or([_bt(x) for x in xs]))


def Not(x):
    if not _is_sym(x):
        return not x
    return SymBool(z3.Not(_bt(x)))


def Implies(a, b):
    return Or(Not(a), b)


def Iff(a, b):
    if not _is_sym(a) and not _is_sym(b):
        return bool(a) == bool(b)
    return SymBool(_bt(a) == _bt(b))


def If(c, a, b):
    """Value-level if-then-else without forking (ints / bools)."""
    if not _is_sym(c):
        return a if c else b
    if isinstance(a, (SymBool, bool)) and isinstance(b, (SymBool, bool)):
        return SymBool(z3.If(_bt(c), _bt(a), _bt(b)))
    if isinstance(a, (SymReal, Fraction, float)) or isinstance(b, (SymReal, Fraction, float)):
        return SymReal(z3.If(_bt(c), _rl(a), _rl(b)))
    la, lb = _lift(a), _lift(b)
    x, y, w, s = _common(la, lb)
    return SymInt(z3.If(_bt(c), x, y), w, s)


# ----------------------------------------------------------------------------- integers
def _lift(x):
    if isinstance(x, SymInt):
        return x
    if isinstance(x, bool):
        x = int(x)
    if isinstance(x, builtins.int):
        if x >= 0:
            w = bitlen(x)
            return SymInt(z3.BitVecVal(x, w), w, False)
        w = bitlen(-x) + 1
        return SymInt(z3.BitVecVal(x, w), w, True)
    if isinstance(x, SymBool):
        return SymInt(z3.If(x.t, z3.BitVecVal(1, 1), z3.BitVecVal(0, 1)), 1, False)
    return None


def _ext(a, w, signed):
    if a.w == w:
        return a.t
    if a.w > w:
        raise RuntimeError("internal: narrowing in _ext")
    if a.s:
        return z3.SignExt(w - a.w, a.t)
    return z3.ZeroExt(w - a.w, a.t)


def _common(a, b, extra=0):
    signed = a.s or b.s
    wa = a.w + (1 if (signed and not a.s) else 0)
    wb = b.w + (1 if (signed and not b.s) else 0)
    w = max(wa, wb) + extra
    if w > (1 << 20):
        raise Unsupported("integer wider than 2^20 bits")
    return _ext(a, w, signed), _ext(b, w, signed), w, signed


class SymInt:
    """Exact-width bit-vector integer: no operation wraps (results are widened)."""

    __slots__ = ("_t", "w", "s", "parts")

    def __init__(self, t, w, s, parts=None):
        self._t, self.w, self.s = t, w, s
        self.parts = parts  # optional little-endian list of byte terms (keeps masking linear)

    @property
    def t(self):
        if self._t is None:
            ps = [_bv8(p) for p in reversed(self.parts)]
            self._t = z3.Concat(*ps) if len(ps) > 1 else ps[0]
        return self._t

    def __repr__(self):
        return "<symint>"

    __str__ = __repr__

    def __format__(self, spec):
        return "<symint>"

    def _bin(self, other, f, extra=0, rev=False, force_signed=False):
        o = _lift(other)
        if o is None:
            return NotImplemented
        a, b = (o, self) if rev else (self, o)
        if force_signed:
            a = a.as_signed()
            b = b.as_signed()
        x, y, w, s = _common(a, b, extra)
        return SymInt(f(x, y), w, s)

    def as_signed(self):
        if self.s:
            return self
        return SymInt(z3.ZeroExt(1, self.t), self.w + 1, True)

    def __add__(self, o):
        return self._bin(o, lambda x, y: x + y, 1)

    def __radd__(self, o):
        return self._bin(o, lambda x, y: x + y, 1, True)

    def __sub__(self, o):
        return self._bin(o, lambda x, y: x - y, 1, False, True)

    def __rsub__(self, o):
        return self._bin(o, lambda x, y: x - y, 1, True, True)

    def __neg__(self):
        return 0 - self

    def __pos__(self):
        return self

    def __and__(self, o):
        o = _lift(o)
        if o is None:
            return NotImplemented
        x, y, w, s = _common(self, o)
        r = SymInt(x & y, w, s)
        # x & non-negative constant: result fits the constant's width
        if s is False:
            return r
        return r

    __rand__ = __and__

    def __or__(self, o):
        return self._bin(o, lambda x, y: x | y)

    __ror__ = __or__

    def __xor__(self, o):
        if self.parts is not None and isinstance(o, builtins.int) and not isinstance(o, bool) and o >= 0:
            nb = max(1, (o.bit_length() + 7) // 8)
            o = SymInt(None, 8 * nb, False, list(o.to_bytes(nb, "little")))
        o = _lift(o)
        if o is None:
            return NotImplemented
        if self.parts is not None and o.parts is not None and not self.s and not o.s:
            n = max(len(self.parts), len(o.parts))
            pa = self.parts + [0] * (n - len(self.parts))
            pb = o.parts + [0] * (n - len(o.parts))
            parts = []
            for a, b in zip(pa, pb):
                if isinstance(a, builtins.int) and isinstance(b, builtins.int):
                    parts.append(a ^ b)
                elif isinstance(a, builtins.int) and a == 0:
                    parts.append(b)
                elif isinstance(b, builtins.int) and b == 0:
                    parts.append(a)
                else:
                    parts.append(_bv8(a) ^ _bv8(b))
            return SymInt(None, 8 * n, False, parts)
        x, y, w, s = _common(self, o)
        return SymInt(x ^ y, w, s)

    __rxor__ = __xor__

    def _mat(self):
        return self

    def __mul__(self, o):
        o = _lift(o)
        if o is None:
            return NotImplemented
        x, y, w, s = _common(self, o, max(self.w, o.w))
        return SymInt(x * y, w, s)

    __rmul__ = __mul__

    def __lshift__(self, k):
        if isinstance(k, SymInt):
            k = k.__index__()
        if not isinstance(k, builtins.int) or k < 0:
            raise Unsupported("shift amount")
        if k == 0:
            return self
        t = (z3.SignExt if self.s else z3.ZeroExt)(k, self.t)
        return SymInt(t << k, self.w + k, self.s)

    def __rlshift__(self, c):
        k = self.__index__()
        return c << k

    def __rshift__(self, k):
        if isinstance(k, SymInt):
            k = k.__index__()
        if not isinstance(k, builtins.int) or k < 0:
            raise Unsupported("shift amount")
        if self.s:
            return SymInt(self.t >> min(k, self.w - 1), self.w, True)
        if k >= self.w:
            return 0
        return SymInt(z3.Extract(self.w - 1, k, self.t), self.w - k, False)

    def __rrshift__(self, c):
        k = self.__index__()
        return c >> k

    def __floordiv__(self, c):
        if isinstance(c, SymInt) or not isinstance(c, builtins.int) or c <= 0 or self.s:
            raise Unsupported("floordiv")
        if self.w < bitlen(c):
            w = bitlen(c)
            return SymInt(z3.UDiv(z3.ZeroExt(w - self.w, self.t), z3.BitVecVal(c, w)), w, False)
        return SymInt(z3.UDiv(self.t, z3.BitVecVal(c, self.w)), self.w, False)

    def __mod__(self, c):
        if isinstance(c, SymInt) or not isinstance(c, builtins.int) or c <= 0 or self.s:
            raise Unsupported("mod")
        if self.w < bitlen(c):
            w = bitlen(c)
            return SymInt(z3.URem(z3.ZeroExt(w - self.w, self.t), z3.BitVecVal(c, w)), w, False)
        return SymInt(z3.URem(self.t, z3.BitVecVal(c, self.w)), self.w, False)

    def _cmp(self, o, fu, fs):
        if isinstance(o, (SymReal, float, Fraction)):
            return NotImplemented
        o = _lift(o)
        if o is None:
            return NotImplemented
        x, y, w, s = _common(self._mat(), o._mat())
        return SymBool(fs(x, y) if s else fu(x, y))

    def __lt__(self, o):
        return self._cmp(o, z3.ULT, lambda x, y: x < y)

    def __le__(self, o):
        return self._cmp(o, z3.ULE, lambda x, y: x <= y)

    def __gt__(self, o):
        return self._cmp(o, z3.UGT, lambda x, y: x > y)

    def __ge__(self, o):
        return self._cmp(o, z3.UGE, lambda x, y: x >= y)

    def __eq__(self, o):
        r = self._cmp(o, lambda x, y: x == y, lambda x, y: x == y)
        return False if r is NotImplemented else r

    def __ne__(self, o):
        r = self._cmp(o, lambda x, y: x != y, lambda x, y: x != y)
        return True if r is NotImplemented else r

    def __bool__(self):
        return CTX.branch(self._mat().t != 0)

    def __hash__(self):
        return hash(self.__index__())

    def __index__(self):
        """Concretise by forking over all feasible values (bounded by 64 per call)."""
        t = z3.simplify(self.t)
        if z3.is_bv_value(t):
            return t.as_signed_long() if self.s else t.as_long()
        for _ in range(64):
            val = CTX.replay_tag()
            if val is None:
                m = CTX.get_model()
                if m is None:
                    CTX.flag = "infeasible"
                    raise PathAbort("infeasible")
                v = m.eval(t, model_completion=True)
                val = v.as_signed_long() if self.s else v.as_long()
            if CTX.branch(t == z3.BitVecVal(val, self.w), tag=val):
                return val
        CTX.flag = "unsupported"
        raise Unsupported("more than 64 feasible values at __index__ (%s)" % CTX._site())

    def to_bytes(self, n, byteorder="big", signed=False):
        if isinstance(n, SymInt):
            n = n.__index__()
        if self.s:
            if CTX.branch((self < 0).t):
                raise OverflowError("can't convert negative int to unsigned")
            me = SymInt(z3.Extract(self.w - 2, 0, self.t), self.w - 1, False) if self.w > 1 else 0
            if me == 0 and not isinstance(me, SymInt):
                return bytes(n)
            return me.to_bytes(n, byteorder)
        if self.parts is not None:
            parts = list(self.parts)
            if len(parts) > n:
                hi = parts[n:]
                if any(isinstance(p, builtins.int) and p != 0 for p in hi):
                    raise OverflowError("int too big to convert")
                hs = [p != 0 for p in hi if not isinstance(p, builtins.int)]
                if hs and CTX.branch(z3.Or(hs)):
                    raise OverflowError("int too big to convert")
                parts = parts[:n]
            parts = parts + [0] * (n - len(parts))
        else:
            t = self.t
            if self.w > 8 * n:
                if n == 0 or CTX.branch(z3.Extract(self.w - 1, 8 * n, t) != 0):
                    if n == 0:
                        if CTX.branch(t != 0):
                            raise OverflowError("int too big to convert")
                        return b""
                    raise OverflowError("int too big to convert")
                t = z3.Extract(8 * n - 1, 0, t)
            elif self.w < 8 * n:
                t = z3.ZeroExt(8 * n - self.w, t)
            parts = [z3.Extract(8 * i + 7, 8 * i, t) for i in range(n)]
        if byteorder == "big":
            parts.reverse()
        return mk_bytes(parts)

    def bit_length(self):
        raise Unsupported("bit_length of symbolic int")


def byte_to_symint(b):
    if isinstance(b, builtins.int):
        return b
    return SymInt(b, 8, False)


def _norm_byte(b):
    """element of SymBytes: python int or z3 BV8 term"""
    if isinstance(b, SymInt):
        if b.w <= 8 and not b.s:
            b = b.t if b.w == 8 else z3.ZeroExt(8 - b.w, b.t)
        else:
            raise Unsupported("byte from wide symint (needs a range check)")
    if not isinstance(b, builtins.int):
        if b.num_args() == 0:
            return b.as_long() if z3.is_bv_value(b) else b
        b = z3.simplify(b)
        if z3.is_bv_value(b):
            return b.as_long()
    return b


def _bv8(x):
    return z3.BitVecVal(x, 8) if isinstance(x, builtins.int) else x


class SymBytes:
    """bytes of concrete length whose elements are ints or 8-bit terms."""

    __slots__ = ("b", "kind")

    def __init__(self, bs, kind=bytes, norm=False):
        self.b = list(bs) if norm else [_norm_byte(x) for x in bs]
        self.kind = kind  # bytes or bytearray (what isinstance should say)

    def __len__(self):
        return len(self.b)

    def __repr__(self):
        return "<symbytes len=%d>" % len(self.b)

    __str__ = __repr__

    def __format__(self, spec):
        return repr(self)

    def __iter__(self):
        for x in self.b:
            yield byte_to_symint(x)

    def __getitem__(self, i):
        if isinstance(i, slice):
            def cv(x):
                return x.__index__() if isinstance(x, SymInt) else x
            return mk_bytes(self.b[slice(cv(i.start), cv(i.stop), cv(i.step))], self.kind, True)
        if isinstance(i, SymInt):
            i = i.__index__()
        return byte_to_symint(self.b[i])

    def __add__(self, o):
        if isinstance(o, (bytes, bytearray)):
            return mk_bytes(self.b + list(o), self.kind, True)
        if isinstance(o, SymBytes):
            return mk_bytes(self.b + o.b, self.kind, True)
        return NotImplemented

    def __radd__(self, o):
        if isinstance(o, (bytes, bytearray)):
            return mk_bytes(list(o) + self.b, type(o), True)
        return NotImplemented

    def __mul__(self, k):
        if isinstance(k, SymInt):
            k = k.__index__()
        return mk_bytes(self.b * k, self.kind, True)

    def _eq_term(self, o):
        if isinstance(o, (bytes, bytearray)):
            ob = list(o)
        elif isinstance(o, SymBytes):
            ob = o.b
        else:
            return False
        if len(ob) != len(self.b):
            return False
        cs = []
        for x, y in zip(self.b, ob):
            if isinstance(x, builtins.int) and isinstance(y, builtins.int):
                if x != y:
                    return False
            else:
                cs.append(_bv8(x) == _bv8(y))
        if not cs:
            return True
        return SymBool(z3.And(cs))

    def __eq__(self, o):
        return self._eq_term(o)

    def __ne__(self, o):
        return Not(self._eq_term(o))

    def __bool__(self):
        return len(self.b) > 0

    def __hash__(self):
        raise Unsupported("hash of symbolic bytes")

    def __contains__(self, x):
        if isinstance(x, (builtins.int, SymInt)):
            return bool(Or([byte_to_symint(y) == x for y in self.b]) if self.b else False)
        raise Unsupported("subsequence test on symbolic bytes")

    def term(self, i):
        return _bv8(self.b[i])

    def startswith(self, p):
        if len(p) > len(self.b):
            return False
        return bool(self[: len(p)] == p)

    def endswith(self, p):
        if len(p) > len(self.b):
            return False
        return bool(self[len(self.b) - len(p):] == p)

    def decode(self, encoding="utf-8", errors="strict"):
        from . import strs
        return strs.decode_bytes(self, encoding, errors)

    def lower(self):
        return mk_bytes([x + 32 if isinstance(x, builtins.int) and 65 <= x <= 90 else
                         (x if isinstance(x, builtins.int) else z3.If(z3.And(z3.UGE(x, 65), z3.ULE(x, 90)), x + 32, x))
                         for x in self.b], self.kind)

    def upper(self):
        return mk_bytes([x - 32 if isinstance(x, builtins.int) and 97 <= x <= 122 else
                         (x if isinstance(x, builtins.int) else z3.If(z3.And(z3.UGE(x, 97), z3.ULE(x, 122)), x - 32, x))
                         for x in self.b], self.kind)

    def _is_ws(self, x):
        if isinstance(x, builtins.int):
            return x in (9, 10, 11, 12, 13, 32)
        return bool(SymBool(z3.Or([x == k for k in (9, 10, 11, 12, 13, 32)])))

    def strip(self, chars=None):
        if chars is not None:
            raise Unsupported("bytes.strip(chars) on symbolic bytes")
        i, j = 0, len(self.b)
        while i < j and self._is_ws(self.b[i]):
            i += 1
        while j > i and self._is_ws(self.b[j - 1]):
            j -= 1
        return mk_bytes(self.b[i:j], self.kind, True)

    def hex(self):
        return "<symbytes>"


def mk_bytes(bs, kind=bytes, norm=False):
    if not norm:
        bs = [_norm_byte(x) for x in bs]
    if all(isinstance(x, builtins.int) for x in bs):
        return kind(bs)
    return SymBytes(bs, kind, True)


def as_byte_list(x):
    if isinstance(x, SymBytes):
        return list(x.b)
    return list(bytes(x))


# ----------------------------------------------------------------------------- reals (time)
def _rl(x):
    if isinstance(x, SymReal):
        return x.t
    if isinstance(x, bool):
        return z3.RealVal(int(x))
    if isinstance(x, (builtins.int, float, Fraction)):
        f = Fraction(x)
        return z3.RealVal("%d/%d" % (f.numerator, f.denominator))
    if isinstance(x, SymInt):
        raise Unsupported("symbolic int mixed with symbolic real")
    return None


class SymReal:
    __slots__ = ("t",)

    def __init__(self, t):
        self.t = z3.simplify(t)

    def __repr__(self):
        return "<symreal>"

    __str__ = __repr__

    def __format__(self, spec):
        return "<symreal>"

    def _b(self, o, f, rev=False):
        r = _rl(o)
        if r is None:
            return NotImplemented
        t = z3.simplify(f(r, self.t) if rev else f(self.t, r))
        if z3.is_rational_value(t):
            return Fraction(t.numerator_as_long(), t.denominator_as_long())
        return SymReal(t)

    def __add__(self, o):
        return self._b(o, lambda a, b: a + b)

    __radd__ = __add__

    def __sub__(self, o):
        return self._b(o, lambda a, b: a - b)

    def __rsub__(self, o):
        return self._b(o, lambda a, b: a - b, True)

    def __mul__(self, o):
        return self._b(o, lambda a, b: a * b)

    __rmul__ = __mul__

    def __neg__(self):
        return SymReal(-self.t)

    def __truediv__(self, o):
        if isinstance(o, (SymReal, SymInt)):
            raise Unsupported("division by a symbolic value")
        return self * (Fraction(1) / Fraction(o))

    def _c(self, o, f):
        r = _rl(o)
        if r is None:
            return NotImplemented
        return SymBool(f(self.t, r))

    def __lt__(self, o):
        return self._c(o, lambda a, b: a < b)

    def __le__(self, o):
        return self._c(o, lambda a, b: a <= b)

    def __gt__(self, o):
        return self._c(o, lambda a, b: a > b)

    def __ge__(self, o):
        return self._c(o, lambda a, b: a >= b)

    def __eq__(self, o):
        r = self._c(o, lambda a, b: a == b)
        return False if r is NotImplemented else r

    def __ne__(self, o):
        r = self._c(o, lambda a, b: a != b)
        return True if r is NotImplemented else r

    def __bool__(self):
        return CTX.branch(self.t != 0)

    def __hash__(self):
        return id(self)

    def __float__(self):
        raise Unsupported("float(symbolic real)")


# ----------------------------------------------------------------------------- tables
class SymTable:
    """A list of small non-negative ints indexable by a symbolic int: balanced ITE mux on the
    index bits (a z3 Array made the solver answer unknown in the probes)."""

    def __init__(self, values):
        self.values = list(values)
        self.vw = max(1, max(self.values).bit_length())
        self.iw = max(1, (len(self.values) - 1).bit_length())

    def __len__(self):
        return len(self.values)

    def __iter__(self):
        return iter(self.values)

    def __eq__(self, o):
        return list(o) == self.values

    def __getitem__(self, i):
        if not isinstance(i, SymInt):
            return self.values[i]
        if i.s:
            if CTX.branch((i < 0).t):
                raise Unsupported("negative table index")
            i = SymInt(z3.Extract(i.w - 2, 0, i.t), i.w - 1, False)
        if CTX.branch((i >= len(self.values)).t):
            raise IndexError("list index out of range")
        t = i.t
        if i.w > self.iw:
            t = z3.Extract(self.iw - 1, 0, t)
        elif i.w < self.iw:
            t = z3.ZeroExt(self.iw - i.w, t)
        vals = self.values

        def mux(lo, hi, bit):
            if hi - lo == 1 or all(v == vals[lo] for v in vals[lo:hi]):
                return z3.BitVecVal(vals[lo], self.vw)
            mid = lo + (1 << bit)
            if mid >= hi:
                return mux(lo, hi, bit - 1)
            return z3.If(z3.Extract(bit, bit, t) == 1, mux(mid, hi, bit - 1), mux(lo, mid, bit - 1))

        return SymInt(z3.simplify(mux(0, len(vals), self.iw - 1)), self.vw, False)


# ----------------------------------------------------------------------------- harness API
class Violation(Control):
    pass


def _conc_get(name):
    if name not in CONC:
        raise ReplayMismatch("replay model has no value for input %r" % name)
    return CONC[name]


def sym_bytes(name, n, kind=bytes):
    if MODE == "concrete":
        return kind(bytes(_conc_get("%s_%d" % (name, i)) for i in range(n)))
    CTX.kinds[name] = ("bytes", n)
    return SymBytes([CTX.fresh("%s_%d" % (name, i), 8) for i in range(n)], kind) if n else kind(b"")


def sym_int(name, width, lo=None, hi=None):
    """unsigned symbolic integer of `width` bits, optionally constrained to lo <= v <= hi"""
    if MODE == "concrete":
        v = builtins.int(_conc_get(name))
    else:
        v = SymInt(CTX.fresh(name, width, kind=("int", width)), width, False)
    if lo is not None:
        assume(v >= lo)
    if hi is not None:
        assume(v <= hi)
    return v


def sym_bool(name):
    if MODE == "concrete":
        return bool(_conc_get(name))
    return SymBool(CTX.fresh(name, 1, kind=("bool",)) == 1)


def sym_real(name):
    if MODE == "concrete":
        return Fraction(_conc_get(name))
    return SymReal(CTX.fresh(name, real=True, kind=("real",)))


def choice(name, n):
    """A symbolic selector in range(n) that is decided immediately (one path per value).  It is a
    solver variable like any other, so it appears in counterexamples and replays.  The variable is
    fresh, hence every value is feasible: the fork is n-ary and needs no solver call."""
    if MODE == "concrete":
        return builtins.int(_conc_get(name))
    c = CTX
    if n <= 1:
        c.inputs[name] = z3.BitVecVal(0, 1)
        return 0
    w = bitlen(n - 1)
    v = c.fresh(name, w, kind=("choice", n))
    c.tick()
    site = "choice:" + name
    if c.pos < len(c.prefix):
        d, tag, h0 = c.prefix[c.pos]
        if h0 != site:
            c.flag = "error"
            raise NonDeterminism("decision %d is %s on re-execution, was %s" % (c.pos, site, h0))
        k = tag
        c.pos += 1
    else:
        k = 0
        base = c.prefix[: c.pos]
        for alt in range(n - 1, 0, -1):
            c.pending.append(base + [(True, alt, site)])
        c.prefix = base + [(True, 0, site)]
        c.pos += 1
        c.fork_sites[site] = c.fork_sites.get(site, 0) + 1
    c.add(v == k)
    return k


def assume(c):
    if MODE == "concrete":
        if not c:
            raise ReplayMismatch("assumption false under replay")
        return
    if isinstance(c, SymBool):
        CTX.add(c.t)
        if CTX.model is None and CTX.check() != "sat":
            CTX.flag = "infeasible"
            raise PathAbort("assume infeasible")
        if CTX.model is None:
            CTX.model = CTX.solver.model()
    elif not c:
        CTX.flag = "infeasible"
        raise PathAbort("assume false")


def require(cond, label, **info):
    """Assert `cond` for every input on the current path.  A failing assertion is recorded
    (with a model) and the path continues under the assumption that it held, so that one
    finding does not hide later assertions."""
    if MODE == "concrete":
        if not cond:
            raise ConcreteFailure(label)
        return
    c = CTX
    if isinstance(cond, (SymInt, SymReal)):
        cond = SymBool(_bt(cond))
    if isinstance(cond, SymBool):
        t = z3.simplify(cond.t)
        if z3.is_true(t):
            c.trivial_requires += 1
            return
        c.requires += 1
        bad = None
        if c.model is not None:
            try:
                if z3.is_false(c.model.eval(t, model_completion=True)):
                    bad = c.model
            except z3.Z3Exception:
                pass
        if bad is None:
            r = c.check(z3.Not(t))
            if r == "unsat":
                c.discharged += 1
                return
            if r != "sat":
                c.flag = "unknown"
                raise Unsupported("solver unknown on require(%s)" % label)
            bad = c.solver.model()
        c.violations.append({"label": label, "model": c.model_values(bad), "info": _plain(info)})
        # continue on the part of the path where the assertion holds
        c.add(t)
        c.model = None
        if c.check() != "sat":
            raise Stop("assertion fails on the whole path")
        c.model = c.solver.model()
    elif not cond:
        c.requires += 1
        m = c.get_model()
        if m is None:
            c.flag = "infeasible"
            raise PathAbort("infeasible at require")
        c.violations.append({"label": label, "model": c.model_values(m), "info": _plain(info)})
        raise Stop("assertion fails on the whole path")
    else:
        c.trivial_requires += 1


def _plain(d):
    out = {}
    for k, v in d.items():
        out[k] = v if isinstance(v, (builtins.int, str, bool, type(None), float)) else repr(v)
    return out


def unsupported(msg):
    if MODE == "concrete":
        raise ReplayMismatch("unsupported under replay: " + msg)
    CTX.flag = "unsupported"
    raise Unsupported(msg)


def note(msg):
    if MODE != "concrete":
        CTX.notes.append(msg)


def is_symbolic(x):
    return isinstance(x, (SymBool, SymInt, SymBytes, SymReal)) or type(x).__name__ in ("SymStr", "SymText")


def tick(n=1):
    if MODE != "concrete":
        CTX.tick(n)


def concrete_value(x):
    """value of a symbolic int under the current model (for logs only)"""
    if isinstance(x, SymInt):
        m = CTX.get_model()
        return m.eval(x._mat().t, model_completion=True).as_long()
    return x
