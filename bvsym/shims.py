"""Solver-aware replacements for the handful of C-level names the repository's modules use.
They are installed *in the globals of the repo modules only* (see loader.install)."""
import array as _array
import builtins
import struct as _struct

try:
    import z3
except ImportError:  # concrete (replay) mode needs no solver
    z3 = None

from . import core, strs
from .core import SymBool, SymBytes, SymInt, SymReal, SymTable, Unsupported
from .strs import SymStr, SymText

_SIZES = {"!H": 2, "!Q": 8, "!I": 4, "!B": 1, ">H": 2, ">Q": 8, ">I": 4, "B": 1, "<H": 2, "<Q": 8, "<I": 4, "<B": 1}


def _order(fmt):
    return "little" if fmt[0] == "<" else "big"


class StructObj:
    """struct.Struct(fmt): a precompiled format is the same conversion"""

    def __init__(self, fmt):
        self.format = fmt
        self.size = _struct.calcsize(fmt)
        self._real = _struct.Struct(fmt)

    def pack(self, *vals):
        return StructShim.pack(self.format, *vals)

    def unpack(self, data):
        return StructShim.unpack(self.format, data)

    def unpack_from(self, data, offset=0):
        if isinstance(data, (SymBytes, ArrayShim)):
            return StructShim.unpack(self.format, data[offset:offset + self.size])
        return self._real.unpack_from(data, offset)

    def __getattr__(self, name):
        return getattr(self.__dict__["_real"], name)


class StructShim:
    error = _struct.error
    Struct = StructObj
    calcsize = staticmethod(_struct.calcsize)
    pack_into = staticmethod(_struct.pack_into)
    iter_unpack = staticmethod(_struct.iter_unpack)

    @staticmethod
    def unpack_from(fmt, data, offset=0):
        if isinstance(data, (SymBytes, ArrayShim)):
            return StructShim.unpack(fmt, data[offset:offset + _struct.calcsize(fmt)])
        return _struct.unpack_from(fmt, data, offset)

    @staticmethod
    def pack(fmt, *vals):
        if not any(isinstance(v, SymInt) for v in vals):
            return _struct.pack(fmt, *vals)
        if fmt not in _SIZES or len(vals) != 1:
            raise Unsupported("struct.pack " + fmt)
        (v,) = vals
        n = _SIZES[fmt]
        if v.s:
            if core.CTX.branch((v < 0).t):
                raise _struct.error("argument out of range")
            v = SymInt(z3.Extract(v.w - 2, 0, v.t), v.w - 1, False) if v.w > 1 else 0
            if not isinstance(v, SymInt):
                return _struct.pack(fmt, v)
        try:
            return v.to_bytes(n, _order(fmt))
        except OverflowError:
            raise _struct.error("argument out of range")

    @staticmethod
    def unpack(fmt, data):
        if isinstance(data, ArrayShim):
            data = data.data
        if not isinstance(data, SymBytes):
            return _struct.unpack(fmt, data)
        if fmt not in _SIZES:
            raise Unsupported("struct.unpack " + fmt)
        n = _SIZES[fmt]
        if len(data) != n:
            raise _struct.error("unpack requires a buffer of %d bytes" % n)
        return (IntShim.from_bytes(data, _order(fmt)),)


class _IntMeta(type):
    def __instancecheck__(cls, x):
        return isinstance(x, (builtins.int, SymInt))

    def __subclasscheck__(cls, c):
        return issubclass(c, (builtins.int, SymInt))


class IntShim(metaclass=_IntMeta):
    def __new__(cls, x=0, *a, **kw):
        if isinstance(x, SymInt):
            return x
        if isinstance(x, SymBool):
            return core._lift(x)
        if isinstance(x, SymStr):
            if a or kw:
                raise Unsupported("int(symstr, base)")
            return strs.parse_int(x)
        if isinstance(x, (SymBytes, SymText)):
            raise Unsupported("int() of symbolic bytes/text")
        if isinstance(x, SymReal):
            raise Unsupported("int() of symbolic real")
        return builtins.int(x, *a, **kw)

    @staticmethod
    def from_bytes(data, byteorder="big", **kw):
        if isinstance(data, ArrayShim):
            data = data.data
        if not isinstance(data, SymBytes):
            return builtins.int.from_bytes(data, byteorder, **kw)
        if kw.get("signed"):
            raise Unsupported("signed from_bytes")
        n = len(data)
        if n == 0:
            return 0
        parts = list(data.b)
        if byteorder == "big":
            parts.reverse()
        return SymInt(None, 8 * n, False, parts)


class ArrayShim:
    def __init__(self, code, data=b""):
        if code != "B":
            raise Unsupported("array typecode " + code)
        if isinstance(data, ArrayShim):
            data = data.data
        if isinstance(data, SymStr):
            raise TypeError("cannot use a str to initialize an array with typecode 'B'")
        self.data = data if isinstance(data, (bytes, SymBytes)) else bytes(data)

    def __len__(self):
        return len(self.data)

    def __mul__(self, k):
        return ArrayShim("B", self.data * k)

    def __add__(self, o):
        return ArrayShim("B", self.data + o.data)

    def __getitem__(self, i):
        r = self.data[i]
        return ArrayShim("B", r) if isinstance(i, slice) else r

    def __iter__(self):
        return iter(self.data)

    def tobytes(self):
        return self.data


class ArrayModShim:
    array = ArrayShim
    ArrayType = ArrayShim


class SymChr:
    def __init__(self, v):
        self.v = v

    def encode(self, enc="utf-8", errors="strict"):
        if enc != "latin-1":
            raise Unsupported("chr(sym).encode " + enc)
        v = self.v
        if v.s:
            if core.CTX.branch((v < 0).t):
                raise ValueError("chr() arg not in range(0x110000)")
            v = SymInt(z3.Extract(v.w - 2, 0, v.t), v.w - 1, False)
        if v.w > 8:
            if core.CTX.branch((v > 255).t):
                raise UnicodeEncodeError("latin-1", "?", 0, 1, "ordinal not in range(256)")
            return SymBytes([z3.Extract(7, 0, v.t)])
        return SymBytes([z3.ZeroExt(8 - v.w, v.t) if v.w < 8 else v.t])


def chr_shim(v):
    if isinstance(v, SymInt):
        return SymChr(v)
    return builtins.chr(v)


def ord_shim(c):
    if isinstance(c, SymStr):
        if len(c) != 1:
            raise TypeError("ord() expected a character")
        x = c.c[0]
        return x if isinstance(x, builtins.int) else SymInt(x, 8, False)
    return builtins.ord(c)


_PROXY_AS = {
    SymBytes: None,  # decided by .kind
    SymInt: (builtins.int,),
    SymStr: (str,),
    SymText: (str,),
    SymBool: (bool, builtins.int),
    SymReal: (float,),
    SymTable: (list,),
    ArrayShim: (_array.array,),
}


def isinstance_shim(x, t):
    tx = type(x)
    if tx in _PROXY_AS:
        ts = t if isinstance(t, tuple) else (t,)
        flat = []
        for tt in ts:
            if isinstance(tt, tuple):
                flat.extend(tt)
            else:
                flat.append(tt)
        stand = _PROXY_AS[tx] or ((x.kind,) if x.kind is bytes else (bytearray,))
        for tt in flat:
            if tt is object or tt is tx:
                return True
            if tt is IntShim:
                tt = builtins.int
            if isinstance(tt, type) and any(issubclass(s, tt) for s in stand):
                return True
        return False
    if t is IntShim:
        return builtins.isinstance(x, builtins.int)
    if isinstance(t, tuple) and IntShim in t:
        t = tuple(builtins.int if tt is IntShim else tt for tt in t)
    return builtins.isinstance(x, t)


def len_shim(x):
    f = getattr(type(x), "__sx_len__", None)
    if f is not None:
        return f(x)
    return builtins.len(x)


def type_shim(*a):
    if len(a) == 1:
        x = a[0]
        if isinstance(x, SymStr) or isinstance(x, SymText):
            return str
        if isinstance(x, SymBytes):
            return x.kind
        if isinstance(x, SymInt):
            return builtins.int
        return builtins.type(x)
    return builtins.type(*a)


def str_shim_factory():
    class _StrMeta(type):
        def __instancecheck__(cls, x):
            return isinstance(x, (str, SymStr, SymText))

    class StrShim(metaclass=_StrMeta):
        def __new__(cls, x="", *a, **kw):
            if isinstance(x, (SymStr, SymText)):
                return x
            if isinstance(x, core.SymBytes) and (a or kw):  # str(b, "utf-8"[, errors]) is b.decode(...)
                return x.decode(*a, **kw)
            return str(x, *a, **kw)

    return StrShim


def sum_shim(it, start=0):
    acc = start
    for x in it:
        acc = acc + x
    return acc


def min_shim(*a, **kw):
    if kw or len(a) != 2 or not any(isinstance(x, (SymInt, SymReal)) for x in a):
        return builtins.min(*a, **kw)
    x, y = a
    return y if y < x else x


def max_shim(*a, **kw):
    if kw or len(a) != 2 or not any(isinstance(x, (SymInt, SymReal)) for x in a):
        return builtins.max(*a, **kw)
    x, y = a
    return y if y > x else x


def bool_shim(x=False):
    return builtins.bool(x)


def repr_shim(x):
    return builtins.repr(x)


def float_shim(x=0.0):
    if isinstance(x, SymReal):
        return x
    return builtins.float(x)


# ------------------------------------------------------------------ subscripts / lookups with a symbolic int key
_TABLES = {}


def _lookup(container, key, default, missing):
    """container[key] for a concrete dict / list / tuple / bytes / str and a symbolic int key, without enumerating the key's
    values: a dict forks once per key it holds, a sequence of small ints becomes an ITE mux, any other sequence forks once per
    position.  Semantics are those of the native operation (KeyError / IndexError / negative indices included)."""
    if isinstance(container, dict):
        for k in list(container):
            if isinstance(k, (builtins.int, SymInt)) and not isinstance(k, builtins.bool):
                if key == k:
                    return container[k]
        if missing is KeyError:
            raise KeyError(key)
        return default
    n = builtins.len(container)
    if n <= 512:
        if key.s and core.CTX.branch((key < 0).t):
            return container[key.__index__()]
        if core.CTX.branch((key >= n).t):
            raise IndexError("index out of range")
        if isinstance(container, (bytes, bytearray)) or (n > 4 and builtins.all(type(v) is builtins.int and 0 <= v < (1 << 32) for v in container)):
            tid = id(container) if isinstance(container, (tuple, bytes)) else None
            tab = _TABLES.get(tid) if tid is not None else None
            if tab is None or tab[0] is not container:
                tab = (container, core.SymTable(list(container)))
                if tid is not None:
                    _TABLES[tid] = tab
            return tab[1][key]
        for i in builtins.range(n):
            if key == i:
                return container[i]
        raise IndexError("index out of range")
    return container[key.__index__()]


def sub_shim(container, key):
    if type(key) is SymInt and type(container) in (dict, list, tuple, bytes, bytearray, str):
        return _lookup(container, key, None, KeyError)
    return container[key]


def dict_get(container, key, default=None):
    if type(key) is SymInt:
        return _lookup(container, key, default, None)
    return container.get(key, default)


class CodecsShim:
    """the name `codecs` inside a repository module: the C-level decoders cannot take a proxy; with symbolic bytes the UTF-8 /
    ASCII / Latin-1 entry points go through the engine's decoder (three-way fork against the reference DFA), everything else is the
    real module"""
    import codecs as _real

    @staticmethod
    def _decode_prefix(b, errors, final):
        import z3
        from . import utf8ref
        from .strs import decode_bytes
        if final:
            return decode_bytes(b, "utf-8", errors), len(b.b)
        # final=False: an incomplete sequence at the end is left unconsumed.  Fork over its length k (0..3): b[:n-k] must decode
        # strictly and, for k > 0, the last k bytes leave the reference DFA in a non-accepting, non-dead state
        n = len(b.b)
        terms = [x if not isinstance(x, int) else z3.BitVecVal(x, 8) for x in b.b]
        for k in range(0, min(3, n) + 1):
            head_ok = utf8ref.valid_term(terms[:n - k])
            if k == 0:
                cond = head_ok
            else:
                st = utf8ref.state_term(terms[n - k:])
                inc = z3.And(st != 0, st != 8)
                if k == 2:
                    # CPython's decoder judges an ED xx pair (surrogate range) only once the third byte is there
                    t0, t1 = terms[n - 2], terms[n - 1]
                    inc = z3.Or(inc, z3.And(t0 == 0xED, z3.UGE(t1, 0x80), z3.ULE(t1, 0xBF)))
                cond = z3.And(head_ok, inc)
            if core.CTX.branch(cond):
                head = core.mk_bytes(b.b[:n - k])
                if isinstance(head, core.SymBytes):
                    return decode_bytes(head, "utf-8", errors), n - k
                return head.decode("utf-8", errors), n - k
        raise UnicodeDecodeError("utf-8", b"?", 0, 1, "invalid start byte (symbolic)")

    @classmethod
    def utf_8_decode(cls, b, errors="strict", final=False):
        if isinstance(b, core.SymBytes):
            return cls._decode_prefix(b, errors or "strict", final)
        return cls._real.utf_8_decode(b, errors, final)

    @classmethod
    def decode(cls, obj, encoding="utf-8", errors="strict"):
        if isinstance(obj, core.SymBytes):
            return obj.decode(encoding, errors)
        return cls._real.decode(obj, encoding, errors)

    @classmethod
    def ascii_decode(cls, b, errors="strict"):
        if isinstance(b, core.SymBytes):
            return b.decode("ascii", errors or "strict"), len(b.b)
        return cls._real.ascii_decode(b, errors)

    @classmethod
    def latin_1_decode(cls, b, errors="strict"):
        if isinstance(b, core.SymBytes):
            return b.decode("latin-1", errors or "strict"), len(b.b)
        return cls._real.latin_1_decode(b, errors)


class _CodecsMeta(type):
    def __getattr__(cls, k):
        import codecs
        return getattr(codecs, k)


CodecsShim = _CodecsMeta("CodecsShim", (CodecsShim,), {})
