"""Solver-aware replacements for the handful of C-level names the repository's modules use.
They are installed *in the globals of the repo modules only* (see loader.install)."""
import array as _array
import builtins
import struct as _struct

try:
    import z3
except ImportError:  # concrete (replay) mode needs no solver
    z3 = None

from . import core, strs
from .core import SymBool, SymBytes, SymInt, SymReal, SymTable, Unsupported
from .strs import SymStr, SymText

_SIZES = {"!H": 2, "!Q": 8, "!I": 4, "!B": 1, ">H": 2, ">Q": 8, ">I": 4, "B": 1, "<H": 2, "<Q": 8, "<I": 4, "<B": 1}


def _order(fmt):
    return "little" if fmt[0] == "<" else "big"


class StructObj:
    """struct.Struct(fmt): a precompiled format is the same conversion"""

    def __init__(self, fmt):
        self.format = fmt
        self.size = _struct.calcsize(fmt)
        self._real = _struct.Struct(fmt)

    def pack(self, *vals):
        return StructShim.pack(self.format, *vals)

    def unpack(self, data):
        return StructShim.unpack(self.format, data)

    def unpack_from(self, data, offset=0):
        if isinstance(data, (SymBytes, ArrayShim)):
            return StructShim.unpack(self.format, data[offset:offset + self.size])
        return self._real.unpack_from(data, offset)

    def __getattr__(self, name):
        return getattr(self.__dict__["_real"], name)


class StructShim:
    error = _struct.error
    Struct = StructObj
    calcsize = staticmethod(_struct.calcsize)
    pack_into = staticmethod(_struct.pack_into)
    iter_unpack = staticmethod(_struct.iter_unpack)

    @staticmethod
    def unpack_from(fmt, data, offset=0):
        if isinstance(data, (SymBytes, ArrayShim)):
            return StructShim.unpack(fmt, data[offset:offset + _struct.calcsize(fmt)])
        return _struct.unpack_from(fmt, data, offset)

    @staticmethod
    def pack(fmt, *vals):
        if not any(isinstance(v, SymInt) for v in vals):
            return _struct.pack(fmt, *vals)
        if fmt not in _SIZES or len(vals) != 1:
            raise Unsupported("struct.pack " + fmt)
        (v,) = vals
        n = _SIZES[fmt]
        if v.s:
            if core.CTX.branch((v < 0).t):
                raise _struct.error("argument out of range")
            v = SymInt(z3.Extract(v.w - 2, 0, v.t), v.w - 1, False) if v.w > 1 else 0
            if not isinstance(v, SymInt):
                return _struct.pack(fmt, v)
        try:
            return v.to_bytes(n, _order(fmt))
        except OverflowError:
            raise _struct.error("argument out of range")

    @staticmethod
    def unpack(fmt, data):
        if isinstance(data, ArrayShim):
            data = data.data
        if not isinstance(data, SymBytes):
            return _struct.unpack(fmt, data)
        if fmt not in _SIZES:
            raise Unsupported("struct.unpack " + fmt)
        n = _SIZES[fmt]
        if len(data) != n:
            raise _struct.error("unpack requires a buffer of %d bytes" % n)
        return (IntShim.from_bytes(data, _order(fmt)),)


class _IntMeta(type):
    def __instancecheck__(cls, x):
        return isinstance(x, (builtins.int, SymInt))

    def __subclasscheck__(cls, c):
        return issubclass(c, (builtins.int, SymInt))


class IntShim(metaclass=_IntMeta):
    def __new__(cls, x=0, *a, **kw):
        if isinstance(x, SymInt):
            return x
        if isinstance(x, SymBool):
            return core._lift(x)
        if isinstance(x, SymStr):
            if a or kw:
                raise Unsupported("int(symstr, base)")
            return strs.parse_int(x)
        if isinstance(x, (SymBytes, SymText)):
            raise Unsupported("int() of symbolic bytes/text")
        if isinstance(x, SymReal):
            raise Unsupported("int() of symbolic real")
        return builtins.int(x, *a, **kw)

    @staticmethod
    def from_bytes(data, byteorder="big", **kw):
        if isinstance(data, ArrayShim):
            data = data.data
        if not isinstance(data, SymBytes):
            return builtins.int.from_bytes(data, byteorder, **kw)
        if kw.get("signed"):
            raise Unsupported("signed from_bytes")
        n = len(data)
        if n == 0:
            return 0
        parts = list(data.b)
        if byteorder == "big":
            parts.reverse()
        return SymInt(None, 8 * n, False, parts)


class ArrayShim:
    def __init__(self, code, data=b""):
        if code != "B":
            raise Unsupported("array typecode " + code)
        if isinstance(data, ArrayShim):
            data = data.data
        if isinstance(data, SymStr):
            raise TypeError("cannot use a str to initialize an array with typecode 'B'")
        self.data = data if isinstance(data, (bytes, SymBytes)) else bytes(data)

    def __len__(self):
        return len(self.data)

    def __mul__(self, k):
        return ArrayShim("B", self.data * k)

    def __add__(self, o):
        return ArrayShim("B", self.data + o.data)

    def __getitem__(self, i):
        r = self.data[i]
        return ArrayShim("B", r) if isinstance(i, slice) else r

    def __iter__(self):
        return iter(self.data)

    def tobytes(self):
        return self.data


class ArrayModShim:
    array = ArrayShim
    ArrayType = ArrayShim


class SymChr:
    def __init__(self, v):
        self.v = v

    def encode(self, enc="utf-8", errors="strict"):
        if enc != "latin-1":
            raise Unsupported("chr(sym).encode " + enc)
        v = self.v
        if v.s:
            if core.CTX.branch((v < 0).t):
                raise ValueError("chr() arg not in range(0x110000)")
            v = SymInt(z3.Extract(v.w - 2, 0, v.t), v.w - 1, False)
        if v.w > 8:
            if core.CTX.branch((v > 255).t):
                raise UnicodeEncodeError("latin-1", "?", 0, 1, "ordinal not in range(256)")
            return SymBytes([z3.Extract(7, 0, v.t)])
        return SymBytes([z3.ZeroExt(8 - v.w, v.t) if v.w < 8 else v.t])


def chr_shim(v):
    if isinstance(v, SymInt):
        return SymChr(v)
    return builtins.chr(v)


def ord_shim(c):
    if isinstance(c, SymStr):
        if len(c) != 1:
            raise TypeError("ord() expected a character")
        x = c.c[0]
        return x if isinstance(x, builtins.int) else SymInt(x, 8, False)
    return builtins.ord(c)


_PROXY_AS = {
    SymBytes: None,  # decided by .kind
    SymInt: (builtins.int,),
    SymStr: (str,),
    SymText: (str,),
    SymBool: (bool, builtins.int),
    SymReal: (float,),
    SymTable: (list,),
    ArrayShim: (_array.array,),
}


def _real_types(t):
    if isinstance(t, tuple):
        return tuple(_real_types(tt) for tt in t)
    try:
        return _STANDINS.get(t, t)
    except TypeError:
        return t


def isinstance_shim(x, t):
    tx = type(x)
    t = _real_types(t)
    if tx in _PROXY_AS:
        ts = t if isinstance(t, tuple) else (t,)
        flat = []
        for tt in ts:
            if isinstance(tt, tuple):
                flat.extend(tt)
            else:
                flat.append(tt)
        stand = _PROXY_AS[tx] or ((x.kind,) if x.kind is bytes else (bytearray,))
        for tt in flat:
            if tt is object or tt is tx:
                return True
            if tt is IntShim:
                tt = builtins.int
            if isinstance(tt, type) and any(issubclass(s, tt) for s in stand):
                return True
        return False
    if t is IntShim:
        return builtins.isinstance(x, builtins.int)
    if isinstance(t, tuple) and IntShim in t:
        t = tuple(builtins.int if tt is IntShim else tt for tt in t)
    return builtins.isinstance(x, t)


def len_shim(x):
    f = getattr(type(x), "__sx_len__", None)
    if f is not None:
        return f(x)
    return builtins.len(x)


def type_shim(*a):
    if len(a) == 1:
        x = a[0]
        if isinstance(x, SymStr) or isinstance(x, SymText):
            return str
        if isinstance(x, SymBytes):
            return {builtins.bytes: BytesShim, builtins.bytearray: ByteArrayShim, builtins.memoryview: MemoryViewShim}[x.kind]
        if builtins.type(x) is builtins.bytes:
            return BytesShim
        if builtins.type(x) is builtins.bytearray:
            return ByteArrayShim
        if isinstance(x, SymInt):
            return builtins.int
        return builtins.type(x)
    return builtins.type(*a)


def str_shim_factory():
    class _StrMeta(type):
        def __instancecheck__(cls, x):
            return isinstance(x, (str, SymStr, SymText))

    class StrShim(metaclass=_StrMeta):
        def __new__(cls, x="", *a, **kw):
            if isinstance(x, (SymStr, SymText)):
                return x
            if isinstance(x, core.SymBytes) and (a or kw):  # str(b, "utf-8"[, errors]) is b.decode(...)
                return x.decode(*a, **kw)
            return str(x, *a, **kw)

    return StrShim


def sum_shim(it, start=0):
    acc = start
    for x in it:
        acc = acc + x
    return acc


def min_shim(*a, **kw):
    if kw or len(a) != 2 or not any(isinstance(x, (SymInt, SymReal)) for x in a):
        return builtins.min(*a, **kw)
    x, y = a
    return y if y < x else x


def max_shim(*a, **kw):
    if kw or len(a) != 2 or not any(isinstance(x, (SymInt, SymReal)) for x in a):
        return builtins.max(*a, **kw)
    x, y = a
    return y if y > x else x


def bool_shim(x=False):
    return builtins.bool(x)


def repr_shim(x):
    return builtins.repr(x)


def float_shim(x=0.0):
    if isinstance(x, SymReal):
        return x
    return builtins.float(x)


# ------------------------------------------------------------------ subscripts / lookups with a symbolic int key
_TABLES = {}


def _lookup(container, key, default, missing):
    """container[key] for a concrete dict / list / tuple / bytes / str and a symbolic int key, without enumerating the key's
    values: a dict forks once per key it holds, a sequence of small ints becomes an ITE mux, any other sequence forks once per
    position.  Semantics are those of the native operation (KeyError / IndexError / negative indices included)."""
    if isinstance(container, dict):
        for k in list(container):
            if isinstance(k, (builtins.int, SymInt)) and not isinstance(k, builtins.bool):
                if key == k:
                    return container[k]
        if missing is KeyError:
            raise KeyError(key)
        return default
    n = builtins.len(container)
    if n <= 512:
        if key.s and core.CTX.branch((key < 0).t):
            return container[key.__index__()]
        if core.CTX.branch((key >= n).t):
            raise IndexError("index out of range")
        if isinstance(container, (bytes, bytearray)) or (n > 4 and builtins.all(type(v) is builtins.int and 0 <= v < (1 << 32) for v in container)):
            tid = id(container) if isinstance(container, (tuple, bytes)) else None
            tab = _TABLES.get(tid) if tid is not None else None
            if tab is None or tab[0] is not container:
                tab = (container, core.SymTable(list(container)))
                if tid is not None:
                    _TABLES[tid] = tab
            return tab[1][key]
        for i in builtins.range(n):
            if key == i:
                return container[i]
        raise IndexError("index out of range")
    return container[key.__index__()]


def sub_shim(container, key):
    if type(key) is SymInt and type(container) in (dict, list, tuple, bytes, bytearray, str):
        return _lookup(container, key, None, KeyError)
    return container[key]


def dict_get(container, key, default=None):
    if type(key) is SymInt:
        return _lookup(container, key, default, None)
    return container.get(key, default)


class CodecsShim:
    """the name `codecs` inside a repository module: the C-level decoders cannot take a proxy; with symbolic bytes the UTF-8 /
    ASCII / Latin-1 entry points go through the engine's decoder (three-way fork against the reference DFA), everything else is the
    real module"""
    import codecs as _real

    @staticmethod
    def _decode_prefix(b, errors, final):
        import z3
        from . import utf8ref
        from .strs import decode_bytes
        if final:
            return decode_bytes(b, "utf-8", errors), len(b.b)
        # final=False: an incomplete sequence at the end is left unconsumed.  Fork over its length k (0..3): b[:n-k] must decode
        # strictly and, for k > 0, the last k bytes leave the reference DFA in a non-accepting, non-dead state
        n = len(b.b)
        terms = [x if not isinstance(x, int) else z3.BitVecVal(x, 8) for x in b.b]
        for k in range(0, min(3, n) + 1):
            head_ok = utf8ref.valid_term(terms[:n - k])
            if k == 0:
                cond = head_ok
            else:
                st = utf8ref.state_term(terms[n - k:])
                inc = z3.And(st != 0, st != 8)
                if k == 2:
                    # CPython's decoder judges an ED xx pair (surrogate range) only once the third byte is there
                    t0, t1 = terms[n - 2], terms[n - 1]
                    inc = z3.Or(inc, z3.And(t0 == 0xED, z3.UGE(t1, 0x80), z3.ULE(t1, 0xBF)))
                cond = z3.And(head_ok, inc)
            if core.CTX.branch(cond):
                head = core.mk_bytes(b.b[:n - k])
                if isinstance(head, core.SymBytes):
                    return decode_bytes(head, "utf-8", errors), n - k
                return head.decode("utf-8", errors), n - k
        raise UnicodeDecodeError("utf-8", b"?", 0, 1, "invalid start byte (symbolic)")

    @classmethod
    def utf_8_decode(cls, b, errors="strict", final=False):
        if isinstance(b, core.SymBytes):
            return cls._decode_prefix(b, errors or "strict", final)
        return cls._real.utf_8_decode(b, errors, final)

    @classmethod
    def decode(cls, obj, encoding="utf-8", errors="strict"):
        if isinstance(obj, core.SymBytes):
            return obj.decode(encoding, errors)
        return cls._real.decode(obj, encoding, errors)

    @classmethod
    def ascii_decode(cls, b, errors="strict"):
        if isinstance(b, core.SymBytes):
            return b.decode("ascii", errors or "strict"), len(b.b)
        return cls._real.ascii_decode(b, errors)

    @classmethod
    def latin_1_decode(cls, b, errors="strict"):
        if isinstance(b, core.SymBytes):
            return b.decode("latin-1", errors or "strict"), len(b.b)
        return cls._real.latin_1_decode(b, errors)


class _CodecsMeta(type):
    def __getattr__(cls, k):
        import codecs
        return getattr(codecs, k)


CodecsShim = _CodecsMeta("CodecsShim", (CodecsShim,), {})


# ------------------------------------------------------------------ byte buffers: bytes(...) / bytearray(...) / memoryview(...)
def _elems(src, enc_args=()):
    """element list (ints / 8-bit terms) of anything the bytes / bytearray constructors accept"""
    if isinstance(src, SymBytes):
        return list(src.b)
    if isinstance(src, ArrayShim):
        return _elems(src.data)
    if isinstance(src, (builtins.bytes, builtins.bytearray, builtins.memoryview)):
        return list(builtins.bytes(src))
    if isinstance(src, builtins.int):
        return [0] * src
    if isinstance(src, SymInt):
        return [0] * src.__index__()
    if isinstance(src, str):
        return list(src.encode(*enc_args))
    if isinstance(src, SymStr):
        return _elems(src.encode(*enc_args))
    return [core._norm_byte(v) if not isinstance(v, builtins.int) else _chk_byte(v) for v in src]


def _chk_byte(v):
    if not 0 <= v <= 255:
        raise ValueError("byte must be in range(0, 256)")
    return v


def _ix(i):
    if isinstance(i, slice):
        return slice(*[x.__index__() if isinstance(x, SymInt) else x for x in (i.start, i.stop, i.step)])
    return i.__index__() if isinstance(i, SymInt) else i


class SymByteArray(SymBytes):
    """what `bytearray(...)` creates inside repository modules: a mutable byte buffer whose elements may be symbolic (a C-level
    bytearray cannot hold a proxy).  It is a SymBytes (kind bytearray), so everything that understands SymBytes understands it."""
    __slots__ = ()

    def __init__(self, src=b"", *a):
        SymBytes.__init__(self, _elems(src, a), builtins.bytearray, True)

    def __repr__(self):
        return "<symbytearray len=%d>" % len(self.b)

    def __getitem__(self, i):
        if isinstance(i, slice):
            return SymByteArray(self.b[_ix(i)])
        return core.byte_to_symint(self.b[_ix(i)])

    def __setitem__(self, i, v):
        if isinstance(i, slice):
            self.b[_ix(i)] = _elems(v)
        else:
            self.b[_ix(i)] = _elems([v])[0]

    def __delitem__(self, i):
        del self.b[_ix(i)]

    def __iadd__(self, o):
        self.b.extend(_elems(o))
        return self

    def __add__(self, o):
        if isinstance(o, (builtins.bytes, builtins.bytearray, builtins.memoryview, SymBytes)):
            return SymByteArray(self.b + _elems(o))
        return NotImplemented

    def __radd__(self, o):
        if isinstance(o, (builtins.bytes, builtins.bytearray)):
            return core.mk_bytes(list(o) + self.b, type(o), True)
        return NotImplemented

    def __mul__(self, k):
        return SymByteArray(self.b * _ix(k))

    def __imul__(self, k):
        self.b[:] = self.b * _ix(k)
        return self

    def extend(self, o):
        self.b.extend(_elems(o))

    def append(self, v):
        self.b.append(_elems([v])[0])

    def insert(self, i, v):
        self.b.insert(_ix(i), _elems([v])[0])

    def pop(self, i=-1):
        return core.byte_to_symint(self.b.pop(_ix(i)))

    def clear(self):
        del self.b[:]

    def copy(self):
        return SymByteArray(self.b)

    def reverse(self):
        self.b.reverse()


class SymView(SymBytes):
    """what `memoryview(x)` gives for a symbolic buffer: a read-only snapshot with the memoryview methods the library could use"""
    __slots__ = ()

    def __init__(self, src):
        SymBytes.__init__(self, _elems(src), builtins.memoryview, True)

    def __repr__(self):
        return "<symview len=%d>" % len(self.b)

    def __getitem__(self, i):
        if isinstance(i, slice):
            return SymView(self.b[_ix(i)])
        return core.byte_to_symint(self.b[_ix(i)])

    def __setitem__(self, i, v):
        raise Unsupported("write through a memoryview of symbolic bytes")

    def tobytes(self):
        return core.mk_bytes(list(self.b), builtins.bytes, True)

    def tolist(self):
        return [core.byte_to_symint(x) for x in self.b]

    def release(self):
        pass

    def toreadonly(self):
        return self

    def cast(self, fmt, *a):
        if fmt not in ("B", "b", "c"):
            raise Unsupported("memoryview.cast(%r)" % fmt)
        return self

    nbytes = property(lambda self: len(self.b))
    itemsize = 1
    readonly = True
    format = "B"
    ndim = 1

    def __enter__(self):
        return self

    def __exit__(self, *a):
        return False


class _FwdMeta(type):
    """a stand-in for a builtin type: isinstance / issubclass answer for the real type (and its proxies), unknown attributes
    (bytes.fromhex, bytearray.maketrans ...) come from the real type"""

    def __instancecheck__(cls, x):
        return isinstance_shim(x, cls._real)

    def __subclasscheck__(cls, c):
        return c is cls or (isinstance(c, type) and issubclass(c, cls._real))

    def __getattr__(cls, k):
        return getattr(cls._real, k)

    def __eq__(cls, o):
        return o is cls or o is cls._real

    def __hash__(cls):
        return hash(cls._real)

    def __repr__(cls):
        return repr(cls._real)


class BytesShim(metaclass=_FwdMeta):
    _real = builtins.bytes

    def __new__(cls, *a, **kw):
        if a and isinstance(a[0], SymBytes):
            return core.mk_bytes(list(a[0].b), builtins.bytes, True)
        if a and isinstance(a[0], (SymStr, SymText)):
            return a[0].encode(*a[1:], **kw)
        if a and isinstance(a[0], SymInt):
            return builtins.bytes(a[0].__index__())
        if a and isinstance(a[0], (list, tuple)) and any(isinstance(v, SymInt) for v in a[0]):
            return core.mk_bytes(_elems(a[0]), builtins.bytes, True)
        return builtins.bytes(*a, **kw)


class ByteArrayShim(metaclass=_FwdMeta):
    _real = builtins.bytearray

    def __new__(cls, *a, **kw):
        if kw:
            a = a + tuple(kw.values())
        return SymByteArray(*a)


class MemoryViewShim(metaclass=_FwdMeta):
    _real = builtins.memoryview

    def __new__(cls, obj):
        if isinstance(obj, SymBytes):
            return SymView(obj)
        return builtins.memoryview(obj)


_STANDINS = {IntShim: builtins.int, BytesShim: builtins.bytes, ByteArrayShim: builtins.bytearray, MemoryViewShim: builtins.memoryview}
_PROXY_AS[SymByteArray] = (builtins.bytearray,)
_PROXY_AS[SymView] = (builtins.memoryview,)
