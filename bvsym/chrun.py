"""Engine E1: CrossHair 0.0.110 on PEP-316 contract functions (files under /verif/ch/).

An obligation of kind 'crosshair' names a file and a function whose contract is `post: _` (returns True for every
input satisfying the `pre:` lines).  Verdicts: 'Confirmed over all paths' -> discharged; a counterexample -> replayed
natively (plain /venv python, no CrossHair) and only then reported; 'Not confirmed' / 'Unable to meet precondition'
/ timeout -> inconclusive for a decide-instance, 'no counterexample in T s' for a hunt-instance (never counted as
discharged)."""
import ast
import importlib.util
import json
import os
import re
import subprocess
import sys
import time
from concurrent.futures import ThreadPoolExecutor

HERE = os.path.dirname(os.path.dirname(os.path.abspath(__file__)))
REPO = os.environ.get("VERIF_REPO", "/repo")
NATIVE_PY = os.environ.get("VERIF_NATIVE_PY", "/venv/bin/python")


class ChObligation:
    """duck-types bvsym.explore.Obligation for run_check"""

    def __init__(self, name, file, function, timeout_s=60, required=True, mode="decide", bounds="", outside=(), kernel=(),
                 assumptions=()):
        self.name, self.file, self.function = name, file, function
        self.timeout_s = timeout_s
        self.required = required and mode == "decide"
        self.kind = "crosshair"
        self.mode = mode
        self.bounds, self.outside, self.kernel, self.assumptions = bounds, list(outside), list(kernel), list(assumptions)
        self.fn = None
        self.scenarios = [{}]


def _line_of(path, fname):
    tree = ast.parse(open(path).read())
    for node in ast.walk(tree):
        if isinstance(node, ast.FunctionDef) and node.name == fname:
            return node.body[0].lineno if node.body else node.lineno
    raise RuntimeError("function %s not found in %s" % (fname, path))


def _run_one(ob):
    path = os.path.join(HERE, ob.file)
    line = _line_of(path, ob.function)
    env = dict(os.environ, PYTHONPATH=REPO + os.pathsep + HERE, PYTHONDONTWRITEBYTECODE="1", VERIF_REPO=REPO)
    cmd = [os.path.join(HERE, ".venv", "bin", "python"), "-m", "crosshair", "check", "--report_all",
           "--per_condition_timeout", str(ob.timeout_s), "--per_path_timeout", str(max(5, ob.timeout_s // 4)), "%s:%d" % (path, line)]
    t0 = time.time()
    # a contract file that drives a PRIVATE unit says so itself when this tree does not have it (UNIT_MISSING = "<name>")
    probe = subprocess.run([os.path.join(HERE, ".venv", "bin", "python"), "-c",
                            "import importlib.util,sys; s=importlib.util.spec_from_file_location('chm', sys.argv[1]); m=importlib.util.module_from_spec(s); "
                            "s.loader.exec_module(m); print('UNIT_MISSING=' + str(getattr(m, 'UNIT_MISSING', '')))", path],
                           capture_output=True, text=True, env=env, timeout=120, cwd=HERE)
    missing = re.search(r"UNIT_MISSING=(\S+)", probe.stdout)
    if missing:
        out = "private entry point not present in this tree: " + missing.group(1)
    else:
        try:
            p = subprocess.run(cmd, capture_output=True, text=True, env=env, timeout=ob.timeout_s * 3 + 60, cwd=HERE)
            out = p.stdout + p.stderr
        except subprocess.TimeoutExpired as e:
            out = "TIMEOUT " + str(e)
    wall = time.time() - t0
    verdict, reasons, violations = "inconclusive", [], []
    m_err = re.search(r": error: (.*)", out)
    if missing:
        verdict, reasons = "not-applicable", ["skipped: " + out]
    elif "Confirmed over all paths" in out and not m_err:
        verdict = "discharged"
    elif m_err:
        msg = m_err.group(1).strip()
        call = None
        mc = re.search(r"when calling (.*?)(?: \(which returns|$)", msg)
        if mc:
            call = mc.group(1).strip()
        rp, rc, rout = _replay(ob, call, msg)
        violations.append({"label": "CrossHair counterexample: " + msg[:200], "model": {"call": call}, "info": {}, "obligation": ob.name,
                           "scenario": 0, "params": {}, "replay_path": rp, "replay_rc": rc, "replay_out": rout})
        verdict = "violated"
    else:
        why = "Not confirmed" if "Not confirmed" in out else ("Unable to meet precondition" if "Unable to meet precondition" in out else out.strip()[-200:])
        if ob.mode == "hunt":
            verdict = "hunted-no-counterexample"
            reasons = []
        else:
            reasons = ["CrossHair: %s within %ds" % (why, ob.timeout_s)]
    return dict(name=ob.name, required=ob.required, kind="crosshair" if ob.mode == "decide" else "hunt", verdict=verdict, reasons=reasons,
                bounds=ob.bounds, outside=ob.outside, kernel=ob.kernel, assumptions=ob.assumptions, scenarios=1, wall_s=round(wall, 2),
                paths=1, paths_ok=1 if verdict == "discharged" else 0, paths_infeasible=0, unsupported=0, unwound=0, errors=0,
                solver_queries=0, solver_s=round(wall, 2), assertions_checked=1, assertions_discharged=1 if verdict == "discharged" else 0,
                assertions_trivially_true=0, nontrivial_paths=1, max_decisions=0,
                messages={("crosshair: " + out.strip().splitlines()[-1][:200]) if out.strip() else "crosshair: no output": 1},
                covered={}, samples=[{"scenario": {"function": ob.function, "file": ob.file}, "crosshair_output": out.strip()[-300:],
                                      "note": "CrossHair does not separate solver time from wall time"}],
                functions=[], top_fork_sites={}, sources={}, violations=violations)


def _replay(ob, call, msg):
    d = os.path.join(HERE, "replays", "crosshair")
    os.makedirs(d, exist_ok=True)
    body = {"kind": "crosshair", "file": ob.file, "function": ob.function, "call": call, "message": msg, "obligation": ob.name}
    import hashlib
    h = hashlib.sha256(json.dumps(body, sort_keys=True).encode()).hexdigest()[:16]
    path = os.path.join(d, h + ".json")
    json.dump(body, open(path, "w"), indent=1)
    env = dict(os.environ, PYTHONPATH=REPO + os.pathsep + HERE, PYTHONDONTWRITEBYTECODE="1", VERIF_REPO=REPO)
    p = subprocess.run([NATIVE_PY, os.path.join(HERE, "replay.py"), path], capture_output=True, text=True, env=env, timeout=300)
    return path, p.returncode, (p.stdout + p.stderr).strip()[-400:]


def replay_file(body):
    """native re-evaluation of a CrossHair counterexample; exit code semantics as replay.py"""
    path = os.path.join(HERE, body["file"])
    spec = importlib.util.spec_from_file_location("ch_replay_mod", path)
    mod = importlib.util.module_from_spec(spec)
    spec.loader.exec_module(mod)
    if not body.get("call"):
        print("REPLAY-ERROR: no call to replay")
        return 2
    try:
        r = eval(body["call"], mod.__dict__)
    except Exception as e:
        print("REPRODUCED (raises %s: %s) %s" % (type(e).__name__, e, body["call"]))
        return 1
    if r is True:
        print("NOT-REPRODUCED: %s returned True natively" % body["call"])
        return 0
    print("REPRODUCED: %s returned %r natively" % (body["call"], r))
    return 1


def run(modname, tier, obs):
    with ThreadPoolExecutor(max_workers=min(8, max(1, len(obs)))) as ex:
        return list(ex.map(_run_one, obs))
