"""CrossHair contract functions for C18 (URL -> port / resource / TLS flag).  Analysed with
`crosshair check --report_all`; the repository is imported from VERIF_REPO (default /repo)."""
import os
import sys

sys.path.insert(0, os.environ.get("VERIF_REPO", "/repo"))
from websocket._url import parse_url  # noqa: E402


def port_rule(secure: bool, port: int) -> bool:
    """
    An explicit port 1..65535 is kept, for ws and wss alike; anything above is refused with ValueError.

    pre: 1 <= port <= 70000
    post: _
    """
    url = ("wss" if secure else "ws") + "://h.example:" + str(port) + "/p?q=1"
    try:
        host, p, res, sec = parse_url(url)
    except ValueError:
        return port > 65535
    if port > 65535:
        return False
    return host == "h.example" and p == port and res == "/p?q=1" and sec == secure


def default_port_rule(secure: bool, with_colon: bool) -> bool:
    """
    Without an explicit port: 80 for ws, 443 for wss (also for a bare trailing colon).

    post: _
    """
    url = ("wss" if secure else "ws") + "://h.example" + (":" if with_colon else "") + "/"
    host, p, res, sec = parse_url(url)
    return host == "h.example" and p == (443 if secure else 80) and res == "/" and sec == secure


def path_query_rule(path: str, query: str) -> bool:
    """
    (hunt) resource is the path ('/' if empty) followed by '?' + query when there is one.

    pre: len(path) <= 3 and len(query) <= 2
    pre: all(c not in "?#/\\\\ \\t\\r\\n" and c.isprintable() and c.isascii() for c in path)
    pre: all(c not in "#\\\\ \\t\\r\\n" and c.isprintable() and c.isascii() for c in query)
    post: _
    """
    url = "ws://h.example/" + path + ("?" + query if query else "")
    host, p, res, sec = parse_url(url)
    return host == "h.example" and p == 80 and res == "/" + path + ("?" + query if query else "") and sec is False
