"""CrossHair contract functions for C19 (no_proxy host / leading-dot domain rule), over ALL Unicode strings in the bound."""
import os
import sys

sys.path.insert(0, os.environ.get("VERIF_REPO", "/repo"))
sys.path.insert(1, os.path.dirname(os.path.dirname(os.path.abspath(__file__))))
import socket as _socket  # noqa: E402
import websocket._url as U  # noqa: E402
from harness.envpatch import EnvPatch, ModProxy  # noqa: E402


def _not_an_ip(addr):
    raise _socket.error("illegal IP address string passed to inet_aton")


# Every host is treated as a NAME in this file: the C boundary socket.inet_aton is replaced - by identity, in whichever module
# the helpers live and under whatever name, once, for the life of this process - by a function that refuses every string
# (IP / CIDR entries are decided by N-cidr).
_EP = EnvPatch()
if getattr(U, "_is_ip_address", None) is not None:
    _EP.replace(U._is_ip_address, lambda addr: False)
_EP.replace(_socket, ModProxy(_socket, inet_aton=_not_an_ip))
_EP.replace(_socket.inet_aton, _not_an_ip)
_DECIDE = getattr(U, "_is_no_proxy_host", None)
UNIT_MISSING = "" if _DECIDE is not None else "websocket._url._is_no_proxy_host"


def _no_proxy_decision(host, entries):
    return _DECIDE(host, entries)


def _exempt_ref(host: str, entries) -> bool:
    for entry in entries:
        if entry == "*" or entry == host:
            return True
        if entry.startswith("."):
            d = entry.lstrip(".")
            if d != "" and (host == d or host.endswith("." + d)):
                return True
    return False


def dom_rule(host: str, entry: str) -> bool:
    """
    A non-IP host is exempt exactly when the list names '*', the host itself, or a leading-dot domain the host belongs to
    (the domain itself or a subdomain, on a label boundary).

    pre: len(host) <= 4 and len(entry) <= 3
    post: _
    """
    got = _no_proxy_decision(host, [entry])
    return bool(got) == _exempt_ref(host, [entry])


def dom_rule2(host: str, e1: str, e2: str) -> bool:
    """
    Same with a two-entry list.

    pre: len(host) <= 3 and len(e1) <= 2 and len(e2) <= 2
    post: _
    """
    got = _no_proxy_decision(host, [e1, e2])
    return bool(got) == _exempt_ref(host, [e1, e2])
