"""CrossHair contract functions for C19 (no_proxy host / leading-dot domain rule), over ALL Unicode strings in the bound."""
import os
import sys

sys.path.insert(0, os.environ.get("VERIF_REPO", "/repo"))
import websocket._url as U  # noqa: E402


def _exempt_ref(host: str, entries) -> bool:
    for entry in entries:
        if entry == "*" or entry == host:
            return True
        if entry.startswith("."):
            d = entry.lstrip(".")
            if d != "" and (host == d or host.endswith("." + d)):
                return True
    return False


def dom_rule(host: str, entry: str) -> bool:
    """
    A non-IP host is exempt exactly when the list names '*', the host itself, or a leading-dot domain the host belongs to
    (the domain itself or a subdomain, on a label boundary).

    pre: len(host) <= 4 and len(entry) <= 3
    post: _
    """
    orig = U._is_ip_address
    U._is_ip_address = lambda addr: False  # C boundary (socket.inet_aton); IP / CIDR entries are decided by N-cidr
    try:
        got = U._is_no_proxy_host(host, [entry])
    finally:
        U._is_ip_address = orig
    return bool(got) == _exempt_ref(host, [entry])


def dom_rule2(host: str, e1: str, e2: str) -> bool:
    """
    Same with a two-entry list.

    pre: len(host) <= 3 and len(e1) <= 2 and len(e2) <= 2
    post: _
    """
    orig = U._is_ip_address
    U._is_ip_address = lambda addr: False
    try:
        got = U._is_no_proxy_host(host, [e1, e2])
    finally:
        U._is_ip_address = orig
    return bool(got) == _exempt_ref(host, [e1, e2])
